#!/bin/bash
# usage: tools/sweep.sh <tier> <seeds...>   -- runs every claimed check for each seed, prints one line per run
cd "$(dirname "$0")/.."
tier=${1:-quick}; shift
seeds=${@:-0 1 2 3 4}
rc=0
for s in $seeds; do
  for p in C01 C02 C03 C04 C05 C06 C07 C08 C09 C10 C11 C12 C13 C14 C15 C16 C17 C18 C19; do
    out=$(VERIF_SEED=$s /venv/bin/python check.py $p --tier $tier 2>&1); e=$?
    echo "seed=$s $p exit=$e $(echo "$out" | grep -v KNOWN-FINDING | tail -1 | cut -c1-220)"
    if [ $e -ne 0 ]; then rc=1; echo "$out" | grep -v KNOWN-FINDING | grep -i "VIOLATION\|INCONCLUSIVE\|inconclusive case" | head -8 | cut -c1-400; fi
  done
done
exit $rc
