#!/usr/bin/env python3
"""Regenerate the seeded-change table of DESIGN.md (between the SEEDED-TABLE markers) from seeded/*/meta.json."""
import glob, json, os, re
ROOT = os.path.dirname(os.path.dirname(os.path.abspath(__file__)))
rows = []
for d in sorted(glob.glob(os.path.join(ROOT, 'seeded', '*'))):
    mp = os.path.join(d, 'meta.json')
    if not os.path.exists(mp):
        continue
    m = json.load(open(mp))
    sid = os.path.basename(d)
    cell = lambda s: str(s).replace('|', '/').replace('\n', ' ')
    rows.append('| %s | %s | %s | %s | %s | %s |' % (sid, m['property'], cell(m['change']), cell(m['needs']), cell('; '.join(m.get('caught_by', [])) or '-'), cell(m.get('strengthened', '-'))))
table = '| Seeded change | Breaks | What was changed | Needs | Caught by | Strengthening of the checks |\n|---|---|---|---|---|---|\n' + '\n'.join(rows) + '\n'
p = os.path.join(ROOT, 'DESIGN.md')
s = open(p).read()
if '<!-- SEEDED-TABLE-BEGIN -->' in s:
    s = re.sub(r'<!-- SEEDED-TABLE-BEGIN -->.*<!-- SEEDED-TABLE-END -->', lambda _m: '<!-- SEEDED-TABLE-BEGIN -->\n' + table + '<!-- SEEDED-TABLE-END -->', s, flags=re.S)
else:
    # first use: replace the hand-written table
    start = s.index('| Seeded change | Breaks |')
    end = s.index('Self-made checks of the same kind')
    s = s[:start] + '<!-- SEEDED-TABLE-BEGIN -->\n' + table + '<!-- SEEDED-TABLE-END -->\n\n' + s[end:]
open(p, 'w').write(s)
print(len(rows), 'rows')
