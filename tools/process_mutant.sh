#!/bin/bash
# usage: tools/process_mutant.sh <seeded-id> <prop> [<prop>...]  -- confirm the change left in /tmp/mut/<id>, evaluate it against the quick checks on a fresh HEAD worktree, remove the agent's worktree
id=$1; shift
cd "$(dirname "$0")/.."
echo "===== $id"
tools/confirm_mutant.sh /tmp/mut/$id $id 2>&1 | tail -2
tools/apply_eval.sh $id quick "$@" 2>&1 | grep "CAUGHT\|MISSED\|VIOLATION\|does not apply" | head -8 | cut -c1-260
test -s seeded/$id/patch.diff && git -C /repo worktree remove --force /tmp/mut/$id
