#!/bin/bash
# usage: tools/confirm_mutant.sh <worktree> <seeded-id>
# Confirms: 129 tests pass with the change; demo.py exits 1 with it and 0 without it.  Then stores patch.diff + demo.py under seeded/<id>/.
# (git stash is shared between worktrees of one repository, so the change is taken off and put back with git apply.)
wt=$1; id=$2
cd $wt || exit 2
git diff > /tmp/confirm-$$.patch
t=$(PYTHONPATH=$wt/src /venv/bin/python -m pytest -q -p no:cacheprovider test 2>&1 | tail -1)
timeout 300 /venv/bin/python demo.py > /tmp/demo-with.$$ 2>&1; with=$?
git apply -R /tmp/confirm-$$.patch
timeout 300 /venv/bin/python demo.py > /tmp/demo-without.$$ 2>&1; without=$?
git apply /tmp/confirm-$$.patch
echo "tests: $t | demo with change: exit $with ($(tail -1 /tmp/demo-with.$$ | cut -c1-80)) | without: exit $without ($(tail -1 /tmp/demo-without.$$ | cut -c1-80))"
d=/verif/seeded/$id; mkdir -p $d
cp /tmp/confirm-$$.patch $d/patch.diff
sed "s#$wt#/repo#g" demo.py > $d/demo.py
echo "$t" | grep -q "129 passed" && [ $with -eq 1 ] && [ $without -eq 0 ] && echo CONFIRMED || echo NOT-CONFIRMED
rm -f /tmp/demo-with.$$ /tmp/demo-without.$$ /tmp/confirm-$$.patch
