#!/bin/bash
# usage: tools/apply_eval.sh <seeded-id> <tier> <prop> [<prop>...]   -- applies seeded/<id>/patch.diff to a fresh worktree of /repo HEAD and evaluates the checks against it
id=$1; tier=$2; shift 2
wt=${VERIF_WT_DIR:-/tmp/mut}/apply-$id; mkdir -p "$(dirname $wt)"
git -C /repo worktree remove --force $wt 2>/dev/null
git -C /repo worktree add -q $wt HEAD || exit 2
if ! git -C $wt apply /verif/seeded/$id/patch.diff; then echo "$id: patch does not apply to HEAD"; git -C /repo worktree remove --force $wt; exit 3; fi
"$(dirname "$0")/eval_mutant.sh" $wt $tier "$@"
git -C /repo worktree remove --force $wt
