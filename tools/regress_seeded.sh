#!/bin/bash
# usage: tools/regress_seeded.sh [ids...]   -- re-evaluates every seeded change against the checks its meta.json says catch it (quick tier); prints one line per (change, check)
cd "$(dirname "$0")/.."
export VERIF_WT_DIR=${VERIF_WT_DIR:-/tmp/mut-regress}
ids=${@:-$(ls seeded)}
rc=0
for id in $ids; do
  props=$(python3 -c "
import json,re,sys
m=json.load(open('seeded/$id/meta.json'))
ps=[]
for c in m.get('caught_by',[]):
    mm=re.match(r'(C\d\d)\b', c)
    if mm and mm.group(1) not in ps: ps.append(mm.group(1))
print(' '.join(ps))")
  if [ -z "$props" ]; then echo "$id: (no check is expected to catch it)"; continue; fi
  out=$(tools/apply_eval.sh $id quick $props 2>&1 | grep "CAUGHT\|MISSED\|does not apply" | cut -c1-60 | tr '\n' ';')
  echo "$id: $out"
  case "$out" in *MISSED*|*"does not apply"*) rc=1;; esac
done
exit $rc
