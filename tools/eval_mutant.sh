#!/bin/bash
# usage: tools/eval_mutant.sh <worktree-with-change-applied> <tier> <prop> [<prop>...]
# Runs the named checks against the tree in <worktree> (VERIF_REPO) and writes evidence/replays to a scratch place; prints CAUGHT / MISSED per check.
wt=$1; tier=$2; shift 2
cd "$(dirname "$0")/.."
out=/var/tmp/ssh-audit-verif-mut/$(basename $wt)
rm -rf $out; mkdir -p $out
for p in "$@"; do
  log=$out/$p.log
  VERIF_REPO=$wt VERIF_OUT=$out /venv/bin/python check.py $p --tier $tier > $log 2>&1; e=$?
  if grep -q "^VIOLATION property=$p" $log; then echo "$p CAUGHT (exit $e): $(grep '^VIOLATION' $log | head -3 | sed 's/replay=[^ ]* //' | cut -c1-260)"; else echo "$p MISSED (exit $e): $(tail -1 $log | cut -c1-200)"; fi
done
