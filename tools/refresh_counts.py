#!/usr/bin/env python3
"""Rewrites the last column (cases / wall) of the per-property table in DESIGN.md section 4 from evidence/*.json (quick tier, as last run)."""
import json, os, re
root = os.path.dirname(os.path.dirname(os.path.abspath(__file__)))
p = os.path.join(root, 'DESIGN.md')
s = open(p).read()
a, b = s.index('## 4. Per-property decisions'), s.index('## 5. Self-validation')
head, s, tail = s[:a], s[a:b], s[b:]
out = []
for line in s.split('\n'):
    m = re.match(r'^\| (C\d\d) \|', line)
    if m and line.count('|') >= 6 and os.path.exists(os.path.join(root, 'evidence', m.group(1) + '.json')):
        ev = json.load(open(os.path.join(root, 'evidence', m.group(1) + '.json')))
        if ev.get('tier') == 'quick':
            cells = line.split('|')
            extra = ''
            mm = re.search(r',\s*([^|]*)$', cells[-2])
            if mm and not re.match(r'^\s*\d+\s*/', mm.group(1)):
                extra = ', ' + mm.group(1).strip()
            cells[-2] = ' %d / %.0f s%s ' % (ev['coverage']['cases_generated'], ev.get('wall_s') or 0, extra)
            line = '|'.join(cells)
    out.append(line)
open(p, 'w').write(head + '\n'.join(out) + tail)
print('ok')
