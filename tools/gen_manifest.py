#!/venv/bin/python
"""Regenerate MANIFEST.json from the property modules that exist (props/cNN.py with a MANIFEST dict)."""
import importlib
import json
import os
import sys

ROOT = os.path.dirname(os.path.dirname(os.path.abspath(__file__)))
sys.path.insert(0, ROOT)
sys.path.insert(1, '/repo/src')
props = [json.loads(l) for l in open(os.path.join(ROOT, 'properties.jsonl'))]
checks, na = [], []
for p in props:
    pid = p['id']
    path = os.path.join(ROOT, 'props', pid.lower() + '.py')
    mod = importlib.import_module('props.' + pid.lower()) if os.path.exists(path) else None
    if mod is None or not hasattr(mod, 'MANIFEST'):
        na.append({'property_id': pid, 'reason': 'check not built yet (runtime monitoring applies; see DESIGN.md section 4) - not claimed until its monitor exists and is silent on the unchanged tree'})
        continue
    m = mod.MANIFEST
    checks.append({
        'property_id': pid,
        'quick_cmd': '/venv/bin/python check.py %s --tier quick' % pid,
        'thorough_cmd': '/venv/bin/python check.py %s --tier thorough' % pid,
        'evidence_file': 'evidence/%s.json' % pid,
        'replay_cmd_template': '/venv/bin/python check.py %s --replay {path}' % pid,
        'engine': 'runtime-monitor',
        'level_claimed': {'category': mod.LEVEL, 'text': m['text'], 'design_ref': 'DESIGN.md section 4, %s' % pid},
        'level_note': m['note'],
        'technique': m['technique'],
    })
man = {
    'version': 1,
    'setup_cmd': '/venv/bin/python check.py --selftest',
    'hooks': {
        'guard': 'SSH_AUDIT_VERIF',
        'enable': 'no repository hooks: monitors are injected from outside by harness/launch.py (monkey-patching after import, then runpy of the unmodified /repo/ssh-audit.py); the guard name is reserved and unused',
        'baseline_off_cmd': 'cd /repo && /venv/bin/python -m pytest -ra -q -p no:cacheprovider --timeout=900 --continue-on-collection-errors',
        'source_commits': [],
        'add_only': True,
    },
    'engines': [{'name': 'runtime-monitor', 'path': 'check.py', 'serves_properties': [c['property_id'] for c in checks],
                 'kind_free_text': 'real CLI / real modules driven by scripted loopback peers and generated inputs; boundary monitors (peer event logs, exit status, stdout), in-process monitors injected by a launcher (audit hooks, recording sockets, call/ table monitors), reference-model and relational oracles; sharded over 16 processes'}],
    'checks': checks,
    'not_applicable': na,
    'notes': 'Exit 0 held / 1 VIOLATION / 2 inconclusive run. Known findings: known_findings.json (never written at run time). Seeds: VERIF_SEED. Scratch: /var/tmp/ssh-audit-verif (removed per run).',
}
json.dump(man, open(os.path.join(ROOT, 'MANIFEST.json'), 'w'), indent=1)
print('checks:', [c['property_id'] for c in checks], 'not claimed:', [n['property_id'] for n in na])
