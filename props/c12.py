"""C12 - group-exchange modulus size is measured and rated correctly."""
import itertools
import json
import random

from harness import audit, peer as peermod, report

ID = 'C12'
LEVEL = 'exploration'
SHARDS = 16
THREADS = 2
EXHAUSTIVE = {'quick': False, 'thorough': True}
RULE = ('one case = one scripted server with a moduli policy (subset of {512,768,1024,1536,2048,3072,4096,6144,8192} x selection style strict / round-up / OpenSSH-fallback, plus the readings exact-preferred-size-only and smallest-between-preferred-and-max) offering sha1, sha256 or both group exchanges under an '
        'OpenSSH, Dropbear or unknown banner, audited for real (quick: all subsets of size <= 2 and all suffix subsets; thorough: all 511 subsets).  Oracle: reported size == model(min over the fixed probe sequence of what the policy hands out; '
        'OpenSSH + 2048 => answer to the 2048-3072-4096 probe) and == the same function of the GEX_REQUESTs the peer actually logged; differential 2048/3072 threshold oracle against a 4096-bit baseline; '
        'refusing / stalling / garbage servers get no size, and so does an OpenSSH server whose fallback answered 2048 but whose follow-up probe (alone) is refused, stalled, truncated or garbled.  Non-trivial: >= 1 GEX_REQUEST logged and a size verdict compared; distinct = distinct (policy, algorithms, banner)')
REQUIRED = {'verdicts_with_per_algorithm_moduli': 6, 'moduli_with_leading_ones': 20, 'moduli_behind_debug_messages': 15, 'sizes_not_multiple_of_8': 10, 'followup_faults_observed': 5, 'multi_target_sizes': 8, 'gex_requests_logged': 200, 'size_verdicts': 40, 'below_2048': 5, 'warn_band': 5, 'no_size_expected': 5, 'openssh_second_pass': 3, 'fault_cases': 3}
ASSUMPTIONS = ['moduli policies are monotone (a larger request never yields a smaller modulus)',
               'for sizes below 2048 only "at least one extra failure note" is demanded (the tool replaces the generic SHA-1 failure text of the sha1 variant by the size text)',
               'the OpenSSH explanatory note is demanded only when the follow-up probe returns a size different from 2048']
MANIFEST = {
    'text': 'Exploration (exhaustive over the 511 x 5 moduli policies in the thorough tier, plus groups of non-aligned length, groups with leading one bits and per-algorithm moduli): each policy is served by a scripted server in real probes; the reported size is compared with a model of the statement and with the requests the server actually logged, and rated with a differential threshold oracle.',
    'note': 'Ground truth is the peer\'s moduli policy and its log of GEX_REQUEST(min,pref,max) messages; trusts report parsers.',
    'technique': 'boundary monitoring of real group-exchange probes: reference model + offline check over the peer\'s recorded request log; differential threshold oracle',
}
ALL = [512, 768, 1024, 1536, 2048, 3072, 4096, 6144, 8192]
SEQ = [(512, 1024, 1536)] + [(b, b, b) for b in (512, 768, 1024, 1536, 2048, 3072, 4096)]
GEX256, GEX1 = 'diffie-hellman-group-exchange-sha256', 'diffie-hellman-group-exchange-sha1'
BANNERS = {'openssh': 'SSH-2.0-OpenSSH_8.9p1', 'dropbear': 'SSH-2.0-dropbear_2022.83', 'unknown': 'SSH-2.0-Srv_1.0'}


def cases(tier, seed):
    rng = random.Random(seed * 41 + 12)
    subs = []
    if tier == 'quick':
        subs = [list(c) for n in (1, 2) for c in itertools.combinations(ALL, n)] + [ALL[i:] for i in range(len(ALL))] + [[1024, 2048, 4096], [2048, 3072, 4096]]
    else:
        subs = [list(c) for n in range(1, 10) for c in itertools.combinations(ALL, n)]
    # moduli whose length is not a multiple of 8 or 4 bits, next to the two thresholds and elsewhere: the reported size is the bit length of what was handed out, not a rounded one
    odd = [[2047], [2049], [3071], [3073], [2046], [2041], [3065], [1023], [4095], [2047, 3071], [1025, 2047], [2049, 3071], [3071, 4097], [2043, 3069, 4093]]
    if tier == 'thorough':
        odd += [[b + d] for b in (1024, 1536, 2048, 3072, 4096, 6144, 8192) for d in (-9, -7, -4, -3, -2, -1, 1, 2, 3, 5)] + [[2048 - d, 3072 - d] for d in (1, 2, 3, 4, 5, 6, 7)]
    # ... and servers that hand out such a group for the range request but answer the exact-size requests with their built-in 2048-bit group: the smaller one stays the result
    odd_fallback = [[1280, 3072, 4096], [1280], [1023, 4096], [1535, 3072], [1279, 2048]]
    subs = subs + odd + odd_fallback
    cs = []
    i = 0
    for s in subs:
        for style in ('strict', 'roundup', 'openssh', 'exact', 'roundup-max'):
            if s in odd and style not in ('strict', 'roundup'):
                continue
            if s in odd_fallback and style != 'openssh':
                continue
            if style in ('exact', 'roundup-max') and tier == 'quick':
                # two further readings of "strict" / "round-up" (exact preferred size only; smallest size between preferred and max): kept in the quick tier where they answer the probe sequence differently from the first two
                seq = [peermod.moduli_answer({'sizes': s, 'style': style}, *q) for q in SEQ]
                if any(seq == [peermod.moduli_answer({'sizes': s, 'style': st}, *q) for q in SEQ] for st in ('strict', 'roundup')) or len(s) > 2:
                    continue
            if tier == 'quick':
                combos = [(['openssh', 'dropbear', 'unknown'][i % 3] if style != 'openssh' else ['openssh', 'openssh', 'unknown'][i % 3], [[GEX256], [GEX1], [GEX1, GEX256]][(i // 3) % 3])]
            else:
                combos = [(b, a) for b in ('openssh', 'dropbear', 'unknown') for a in ([GEX256], [GEX1], [GEX256, GEX1])]
            for b, a in combos:
                i += 1
                cs.append({'kind': 'policy', 'sizes': s, 'style': style, 'banner': b, 'algs': a, 'render': 'json' if i % 3 == 0 else 'text', 'top_ones': i % 4 == 1, 'chatter': [2, 3, 1, 7][(i // 5) % 4] if i % 5 == 2 else 0})
    for i, order in enumerate([[2048, 4096, 1024], [1024, 2048, 4096, 3072], [4096, 2048, 2048, 8192], [3072, 1024, 2048]] if tier == 'quick' else [list(p_) for p_ in itertools.permutations([1024, 2048, 3072, 4096], 3)]):
        cs.append({'kind': 'multi', 'order': order, 'threads': [1, 2][i % 2], 'algs': [[GEX256], [GEX1, GEX256]][i % 2], 'render': ['json', 'text'][i % 2], 'style': 'strict', 'banner': 'unknown'})
    # the two group-exchange algorithms answered from different moduli files: what the probes of one found (size, fallback, follow-up) says nothing about the other
    pa = [({'sizes': [3072], 'style': 'openssh'}, {'sizes': [4096], 'style': 'strict'}), ({'sizes': [4096], 'style': 'strict'}, {'sizes': [3072], 'style': 'openssh'}),
          ({'sizes': [1024], 'style': 'strict'}, {'sizes': [4096], 'style': 'strict'}), ({'sizes': [2048], 'style': 'strict'}, {'sizes': [3072, 4096], 'style': 'openssh'}), ({'sizes': [3072], 'style': 'openssh'}, {'sizes': [2048], 'style': 'strict'})]
    for i, (g1, g256) in enumerate(pa):
        for b in (('openssh',) if tier == 'quick' else ('openssh', 'unknown')):
            cs.append({'kind': 'policy', 'sizes': g256['sizes'], 'style': g256['style'], 'banner': b, 'algs': [GEX1, GEX256], 'render': 'json' if i % 2 else 'text', 'gex_by_alg': {GEX1: g1, GEX256: g256}})
    faults = [('refuse', None), ('stall', {'at': 'gexgroup', 'op': 'stall_before'}), ('garbage', {'at': 'gexgroup', 'op': 'random', 'seed': 7}), ('truncated', {'at': 'gexgroup', 'op': 'truncate', 'offset': 9, 'then': 'close'}),
              ('close', {'at': 'gexgroup', 'op': 'close_before'}), ('wrong-type', {'at': 'gexgroup', 'op': 'patch', 'offset': 5, 'hex': '32'})]
    for name, f in faults:
        for b in ('openssh', 'unknown'):
            cs.append({'kind': 'fault', 'fault': name, 'f': f, 'banner': b, 'algs': [GEX256, GEX1], 'render': 'text'})
    # an OpenSSH server answers 2048 through its fallback, and then only the follow-up 2048-3072-4096 probe fails: the fallback answer is not a measurement
    i = 0
    for name, f in faults[1:] + [('refuse', {'at': 'gexgroup', 'op': 'close_before'})]:
        for sizes in ([[3072, 4096], [4096]] if tier == 'quick' else [[3072], [3072, 4096], [4096], [6144], [3072, 8192]]):
            for algs in ([[GEX1], [GEX256], [GEX256, GEX1]] if tier == 'thorough' else [[[GEX1], [GEX256], [GEX256, GEX1]][i % 3]]):
                i += 1
                cs.append({'kind': 'fault', 'fault': 'followup-' + name, 'f': dict(f, req=[2048, 3072, 4096]), 'banner': 'openssh', 'algs': algs, 'render': 'json' if i % 2 else 'text', 'gex': {'sizes': sizes, 'style': 'openssh'}})
    return cs


def _v(key, what, **d):
    return {'key': key, 'what': what, 'detail': d}


def model(gex, banner):
    """Expected (size or None, openssh second pass changed the size)."""
    ans = [peermod.moduli_answer(gex, *q) for q in SEQ]
    got = [a for a in ans if a]
    if not got:
        return None, False
    m = min(got)
    if m == 2048 and banner == 'openssh':
        a2 = peermod.moduli_answer(gex, 2048, 3072, 4096)
        if not a2:
            return None, False
        return a2, a2 != 2048
    return m, False


def from_log(p, alg, banner):
    """The same function evaluated over the requests the peer really received for this algorithm."""
    conns = {e['conn'] for e in p.events if e['kind'] == 'client-kexinit' and e['kex'] == [alg]}
    reqs = [e for e in p.events if e['kind'] == 'gex-request' and e['conn'] in conns]
    first = [e for e in reqs if (e['min'], e['pref'], e['max']) != (2048, 3072, 4096)]
    second = [e for e in reqs if (e['min'], e['pref'], e['max']) == (2048, 3072, 4096)]
    got = [e['answer'] for e in first if e['answer']]
    if not got:
        return None, len(reqs)
    m = min(got)
    if second:
        a2 = second[-1]['answer']
        return (a2 if a2 else None), len(reqs)
    return m, len(reqs)


def observe(r, render, algs):
    res = {}
    if render == 'json':
        doc = json.loads(r.out)
        for e in doc.get('kex') or []:
            if e['algorithm'] in algs:
                res[e['algorithm']] = {'bits': e.get('keysize'), 'notes': {lvl: sorted((e.get('notes') or {}).get(lvl, [])) for lvl in ('fail', 'warn', 'info')}}
    else:
        rep = report.parse_text(r.out)
        for a in rep.algs['kex']:
            if a.name in algs:
                res[a.name] = {'bits': a.bits, 'notes': {lvl: sorted(t for l, t in a.notes if l == lvl and t) for lvl in ('fail', 'warn', 'info')}}
    return res


def extra(notes, base):
    out = {}
    for lvl in ('fail', 'warn', 'info'):
        b = list(base[lvl])
        ex = []
        for t in notes[lvl]:
            if t in b:
                b.remove(t)
            else:
                ex.append(t)
        out[lvl], out[lvl + '_lost'] = ex, b
    return out


def run_multi(c):
    """Several servers with different single-size moduli files in one -T run: each target's size and rating follow its own modulus."""
    from harness import multi
    targets = []
    for i, sz in enumerate(c['order']):
        script = {'banner': BANNERS['unknown'], 'kex': audit.sym_kex(['curve25519-sha256'] + c['algs'], ['ssh-ed25519'], ['aes128-ctr'], ['hmac-sha2-256']), 'hostkeys': {'ssh-ed25519': {'type': 'ed25519'}}, 'gex': {'sizes': [sz], 'style': 'strict'}}
        targets.append(multi.Target('m%d-%d' % (i, sz), script))
    try:
        res = multi.run_multi(targets, c['threads'], c['render'], timeout=240)
        base_r, base_p = audit.audit_server(dict(targets[0].script, gex={'sizes': [4096], 'style': 'strict'}), ['-j'] if c['render'] == 'json' else ['-n'], timeout=120)
    finally:
        for t in targets:
            t.stop()
    viol, counters = [], {'multi_target_sizes': 0, 'gex_requests_logged': sum(t.peer.count('gex-request') for t in targets), 'size_verdicts': 0}
    if base_r.status not in (0, 2, 3):
        return {'verdict': 'inconclusive', 'why': 'baseline failed'}
    base = observe(base_r, c['render'], c['algs'])

    class _R:
        pass
    for t, sz in zip(targets, c['order']):
        want = sz if sz <= 4096 else None
        if c['render'] == 'json':
            docs = (res.get('docs') or {}).get(t.spec) or []
            if not docs:
                viol.append(_v('C12/multi-target-entry-missing', 'no JSON entry for a target', target=t.name))
                continue
            rr = _R()
            rr.out = json.dumps(docs[0])
        else:
            blocks = (res.get('blocks') or {}).get(t.spec) or []
            if not blocks:
                viol.append(_v('C12/multi-target-entry-missing', 'no block for a target', target=t.name))
                continue
            rr = _R()
            rr.out = blocks[0]
        obs = observe(rr, c['render'], c['algs'])
        for alg in c['algs']:
            o = obs.get(alg)
            if o is None:
                viol.append(_v('C12/alg-missing', 'advertised group exchange absent from a target\'s result', alg=alg))
                continue
            counters['multi_target_sizes'] += 1
            counters['size_verdicts'] += 1
            if o['bits'] != want:
                viol.append(_v('C12/size-wrong:multi-target', 'in a multi-target run a target\'s modulus size differs from what that server hands out', target=t.name, got=o['bits'], want=want, order=c['order']))
                continue
            if want is None:
                continue
            ex = extra(o['notes'], base[alg]['notes'])
            band = 'fail' if want < 2048 else 'warn' if want < 3072 else 'none'
            ok = (len(ex['fail']) >= 1 and not ex['warn']) if band == 'fail' else (len(ex['warn']) == 1 and not ex['fail'] and not ex['warn_lost']) if band == 'warn' else (not ex['fail'] and not ex['warn'] and not ex['fail_lost'] and not ex['warn_lost'])
            if not ok:
                viol.append(_v('C12/size-rating-wrong:multi-target:' + band, 'in a multi-target run a target\'s modulus notes do not follow its own size', target=t.name, bits=want, extra=ex, order=c['order'], threads=c['threads']))
    seen, uniq = set(), []
    for v in viol:
        if v['key'] not in seen:
            seen.add(v['key'])
            uniq.append(v)
    return {'violations': uniq, 'counters': counters, 'nontrivial': counters['multi_target_sizes'] > 0, 'sample': {'case': c, 'observed': counters}, 'sample_kind': 'multi'}


def run_case(c):
    if c['kind'] == 'multi':
        return run_multi(c)
    gex = {'sizes': c['sizes'], 'style': c['style'], 'top_ones': bool(c.get('top_ones'))} if c['kind'] == 'policy' else c['gex'] if c.get('gex') else ({'sizes': [2048, 4096], 'style': 'strict'} if c['fault'] != 'refuse' else None)
    script = {'banner': BANNERS[c['banner']], 'kex': audit.sym_kex(['curve25519-sha256'] + c['algs'], ['ssh-ed25519'], ['aes128-ctr'], ['hmac-sha2-256']),
              'hostkeys': {'ssh-ed25519': {'type': 'ed25519'}}, 'gex': gex, 'linger': 6, 'reply_debug': c.get('chatter', 0)}   # chatter: SSH_MSG_DEBUG messages in front of every group and reply
    if c['kind'] == 'fault' and c['f']:
        script['faults'] = [dict(c['f'], conn='*')]
    if c.get('gex_by_alg'):
        script['gex_by_alg'] = c['gex_by_alg']
    args = (['-j'] if c['render'] == 'json' else ['-n']) + ['-t', '2']
    r, p = audit.audit_server(script, args, timeout=120)
    viol, counters = [], {}
    if r.timed_out:
        return {'verdict': 'inconclusive', 'why': 'watchdog'}
    if r.status not in (0, 2, 3):
        what = 'traceback' if 'Traceback' in r.out else 'status'
        viol.append(_v('C12/audit-failed:%s:%s' % (what, c.get('fault') or c.get('style')), 'audit did not complete although only the group-exchange phase misbehaved', status=r.status, out=r.out[-500:]))
        return {'violations': viol, 'counters': counters, 'nontrivial': False}
    obs = observe(r, c['render'], c['algs'])
    nreq = p.count('gex-request')
    counters['gex_requests_logged'] = nreq
    if c['kind'] == 'fault':
        counters['fault_cases'] = 1
        if c['fault'].startswith('followup-'):
            # the case only says something when the first pass really ended at 2048 and the follow-up request was really sent and really faulted
            reqs = [e for e in p.events if e['kind'] == 'gex-request']
            if not any((e['min'], e['pref'], e['max']) == (2048, 3072, 4096) for e in reqs) or p.count('fault') == 0:
                return {'verdict': 'inconclusive', 'why': 'follow-up probe not observed at the peer'}
            counters['followup_faults_observed'] = p.count('fault')
        for alg in c['algs']:
            o = obs.get(alg)
            if o is None:
                viol.append(_v('C12/alg-missing', 'advertised group exchange absent from the report', alg=alg))
                continue
            counters['size_verdicts'] = counters.get('size_verdicts', 0) + 1
            counters['no_size_expected'] = counters.get('no_size_expected', 0) + 1
            if o['bits'] is not None or any('modulus' in t for t in o['notes']['fail'] + o['notes']['warn'] if 'bit modulus' in t and 'using small' in t):
                viol.append(_v('C12/size-from-faulty-phase:' + c['fault'], 'a server that refuses/stalls/garbles the group exchange got a size', alg=alg, got=o))
        return {'violations': viol, 'counters': counters, 'nontrivial': True, 'sample': {'case': c, 'observed': obs}, 'sample_kind': 'fault'}
    # baseline for the differential rating: same algorithms, 4096 only
    sb = dict(script, gex={'sizes': [4096], 'style': 'strict'}, banner=BANNERS['unknown'])
    sb.pop('gex_by_alg', None)
    rb, pb = audit.audit_server(sb, args, timeout=120)
    if rb.status not in (0, 2, 3):
        return {'verdict': 'inconclusive', 'why': 'baseline audit failed'}
    base = observe(rb, c['render'], c['algs'])
    for alg in c['algs']:
        want, second = model((c.get('gex_by_alg') or {}).get(alg, gex), c['banner'])   # (a server may keep different moduli per group-exchange algorithm: each is judged by what it was handed)
        o = obs.get(alg)
        if o is None or alg not in base:
            viol.append(_v('C12/alg-missing', 'advertised group exchange absent from the report', alg=alg))
            continue
        counters['size_verdicts'] = counters.get('size_verdicts', 0) + 1
        logged, n = from_log(p, alg, c['banner'])
        shape = '%s:%s' % (c['style'], 'openssh-banner' if c['banner'] == 'openssh' else 'other-banner')
        if want != logged:
            # the two oracles disagree: the tool did not send the sequence the model assumes.  Decide on the log (what was really handed out).
            counters['oracle_disagreements'] = counters.get('oracle_disagreements', 0) + 1
        if o['bits'] != want:
            viol.append(_v('C12/size-wrong:' + shape + (':none-reported' if o['bits'] is None else ':none-expected' if want is None else ''), 'reported group-exchange modulus differs from the smallest the server hands out over the probe sequence',
                           alg=alg, got=o['bits'], want=want, from_log=logged, sizes=c['sizes'], style=c['style'], banner=c['banner'], requests=n))
            continue
        if want is None:
            counters['no_size_expected'] = counters.get('no_size_expected', 0) + 1
            continue
        ex = extra(o['notes'], base[alg]['notes'])
        band = 'fail' if want < 2048 else 'warn' if want < 3072 else 'none'
        counters['below_2048'] = counters.get('below_2048', 0) + (band == 'fail')
        counters['warn_band'] = counters.get('warn_band', 0) + (band == 'warn')
        counters['sizes_not_multiple_of_8'] = counters.get('sizes_not_multiple_of_8', 0) + (want % 8 != 0)
        counters['moduli_with_leading_ones'] = counters.get('moduli_with_leading_ones', 0) + bool(c.get('top_ones'))
        counters['moduli_behind_debug_messages'] = counters.get('moduli_behind_debug_messages', 0) + bool(c.get('chatter'))
        counters['verdicts_with_per_algorithm_moduli'] = counters.get('verdicts_with_per_algorithm_moduli', 0) + bool(c.get('gex_by_alg'))
        ok = True
        if band == 'fail':
            ok = len(ex['fail']) >= 1 and not ex['warn']
        elif band == 'warn':
            ok = len(ex['warn']) == 1 and not ex['fail'] and not ex['fail_lost'] and not ex['warn_lost']
        else:
            ok = not ex['fail'] and not ex['warn'] and not ex['fail_lost'] and not ex['warn_lost']
        if not ok:
            viol.append(_v('C12/size-rating-wrong:' + band, 'modulus size notes do not follow the 2048/3072 thresholds', alg=alg, bits=want, extra=ex))
        if second:
            counters['openssh_second_pass'] = counters.get('openssh_second_pass', 0) + 1
            if not any('fallback' in t.lower() for t in ex['info']):
                viol.append(_v('C12/openssh-note-missing', 'size comes from the OpenSSH follow-up probe but the explanatory note is missing', alg=alg, extra=ex))
        elif any('fallback' in t.lower() for t in ex['info']) and alg == GEX256 and not (c['banner'] == 'openssh' and want == 2048):
            viol.append(_v('C12/openssh-note-spurious', 'OpenSSH fallback note without a follow-up probe changing the size', alg=alg, banner=c['banner']))
    seen, uniq = set(), []
    for v in viol:
        if v['key'] not in seen:
            seen.add(v['key'])
            uniq.append(v)
    return {'violations': uniq, 'counters': counters, 'nontrivial': nreq > 0 and counters.get('size_verdicts', 0) > 0,
            'sample': {'case': c, 'expected': want, 'observed': {a: o['bits'] for a, o in obs.items()}, 'gex_requests': nreq}, 'sample_kind': c['style'] + c['banner']}
