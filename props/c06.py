"""C06 - policy verdicts follow the documented matching rules."""
import itertools
import json
import os
import random

from harness import audit, report, runner, wire

ID = 'C06'
LEVEL = 'exploration'
SHARDS = 16
EXHAUSTIVE = {'quick': False, 'thorough': True}
RULE = ('(policy, peer) pairs evaluated by the real Policy.evaluate on a real SSH2_Kex parsed from wire bytes: every list of length <= 3 over a 4-name universe for policy x peer per field '
        '(kex universe contains the strict-kex marker), all 4 flag combinations, all 16 optional-host-key subsets, size/CA/modulus maps over {absent,1024,2048,3072,4096}, '
        'field pairs jointly over a reduced universe, random large instances over database names, and policy files run through the CLI (-P) against scripted peers; '
        'a case (batch) is non-trivial when it contained at least one passing and one failing pair; distinct = distinct batch specifications')
REQUIRED = {'peers_with_other_lists_per_direction': 300, 'client_policies': 200, 'free_text_banners': 25, 'old_size_directives': 200, 'multi_entry_size_maps': 700, 'other_file_layouts': 500, 'cli_multi_entries': 10, 'evaluations': 20000, 'model_pass': 500, 'model_fail': 500, 'metamorphic_checks': 200, 'cli_runs': 20}
ASSUMPTIONS = ['don\'t-care where the statement is silent: compression under subset mode; an empty peer list under subset mode (optional host keys give no exemption under subset mode: the statement mentions them for exact mode only)',
               'sizes are compared only for key types / group-exchange names the peer actually presents (nothing to compare otherwise)']
MANIFEST = {
    'text': 'Exploration (exhaustive over the stated small universe in the thorough tier): the real Policy.evaluate is compared with a 40-line reference model of the statement on every enumerated (policy, peer) pair, with monotonicity relations and a CLI wiring sample; holds on the pairs enumerated.',
    'note': 'Trusts the reference model (written from the statement, don\'t-care where it is silent), harness/wire.py for KEXINIT bytes and the scripted peer for the CLI sample.',
    'technique': 'runtime differential monitoring of Policy.evaluate against an executable reference model, metamorphic (monotonicity) relations, CLI boundary observation',
}
MARK = 'kex-strict-s-v00@openssh.com'
U = {'kex': ['a', 'b', MARK, 'c'], 'key': ['a', 'b', 'c', 'd'], 'enc': ['a', 'b', 'c', 'd'], 'mac': ['a', 'b', 'c', 'd']}
FIELD_POLICY_KEY = {'kex': 'key exchanges', 'key': 'host keys', 'enc': 'ciphers', 'mac': 'macs'}
FIELD_ERR = {'kex': 'Key exchanges', 'key': 'Host keys', 'enc': 'Ciphers', 'mac': 'MACs'}
SIZES = [None, 1024, 2048, 3072, 4096]
GEX = 'diffie-hellman-group-exchange-sha256'


def all_lists(univ, maxlen=3):
    out = [[]]
    for n in range(1, maxlen + 1):
        out += [list(t) for t in itertools.product(univ, repeat=n)]
    return out


# ----------------------------------------------------------------------------- reference model
def model(pol, peer):
    """pol: {'subset':bool,'larger':bool,'kex','key','enc','mac': list|None,'optional': list|None,'sizes': {type:{hostkey_size,ca_key_type,ca_key_size}}|None,
             'dh': {alg:size}|None, 'banner': str|None, 'comp': list|None}
    peer: {'kex','key','enc','mac','comp': list, 'banner': str, 'sizes': {type:{...}}, 'dh': {alg:size}}
    Returns (set of failing field classes, set of don't-care field classes)."""
    bad, dc = set(), set()
    if pol.get('banner') is not None and pol['banner'] != peer.get('banner'):
        bad.add('Banner')
    if pol.get('comp') is not None and pol['comp'] != peer['comp']:
        if pol['subset']:
            dc.add('Compression')
        else:
            bad.add('Compression')
    for f in ('kex', 'key', 'enc', 'mac'):
        if pol.get(f) is None:
            continue
        have = peer[f]
        if pol['subset']:
            if have == [] or have == ['']:
                dc.add(FIELD_ERR[f])
                continue
            extra = [x for x in have if x not in pol[f]]
            if extra:
                # literal reading of the statement: under subset mode every advertised name must be drawn from the policy's list;
                # the optional host keys are only mentioned for exact mode, so they give no exemption here
                bad.add(FIELD_ERR[f])
            if f == 'kex':
                for m in (MARK, 'kex-strict-c-v00@openssh.com'):
                    if m in pol[f] and m not in have:
                        bad.add(FIELD_ERR[f])
        else:
            if f == 'key' and pol.get('optional') is not None:
                have = [x for x in have if x not in pol['optional']]
            if have != pol[f]:
                bad.add(FIELD_ERR[f])

    def size_ok(actual, expected):
        return actual >= expected if pol['larger'] else actual == expected
    for t, want in (pol.get('sizes') or {}).items():
        got = (peer.get('sizes') or {}).get(t)
        if got is None:
            continue
        if not size_ok(got['hostkey_size'], want['hostkey_size']):
            bad.add('Host key sizes')
        if want.get('ca_key_type') and want.get('ca_key_size', 0) > 0:
            if got.get('ca_key_type', '') != want['ca_key_type']:
                bad.add('CA type')
            elif not size_ok(got.get('ca_key_size', 0), want['ca_key_size']):
                bad.add('CA size')
    for a, want in (pol.get('dh') or {}).items():
        got = (peer.get('dh') or {}).get(a)
        if got is None:
            continue
        if not size_ok(got, want):
            bad.add('Modulus sizes')
    return bad, dc


def classify(field):
    if field.startswith('Host key ('):
        return 'Host key sizes'
    if field.startswith('CA signature type'):
        return 'CA type'
    if field.startswith('CA signature size'):
        return 'CA size'
    if field.startswith('Group exchange'):
        return 'Modulus sizes'
    return field


# ----------------------------------------------------------------------------- real objects
LAYOUT_SEPS = [', ', ',', ' , ', ' ,', '\t,\t', ',   ', '  ,']
LAYOUT_EQS = [' = ', '=', ' =', '= ', '   =\t']


def rand_layout(rng):
    """Another spelling of the same policy file: the loader trims names, keys and values, ignores blank and comment lines and reads flags case-insensitively."""
    return {'sep': rng.choice(LAYOUT_SEPS), 'eq': rng.choice(LAYOUT_EQS), 'lead': rng.choice(['', '', ' ', '\t']), 'trail': rng.choice(['', '', ' ', ' \t', '\r']), 'comments': rng.random() < .5,
            'true': rng.choice(['true', 'True', 'TRUE']), 'shuffle': rng.random() < .5, 'seed': rng.randrange(1 << 30), 'oldsizes': rng.random() < .4}


RSA_CERTS = ('ssh-rsa-cert-v01@openssh.com', 'rsa-sha2-256-cert-v01@openssh.com', 'rsa-sha2-512-cert-v01@openssh.com')


def old_format_can_say(sizes):
    for t, e in sizes.items():
        if 'hostkey_size' not in e or not isinstance(e['hostkey_size'], int):
            return False
        if e.get('ca_key_size'):
            if e.get('ca_key_type') != ('ssh-rsa' if t in RSA_CERTS else 'ssh-ed25519'):
                return False
        elif e.get('ca_key_type'):
            return False
    return True


def policy_text(pol, name='t'):
    lay = pol.get('_layout') or {}
    sep, eq = lay.get('sep', ', '), lay.get('eq', ' = ')

    def kv(k, v):
        return lay.get('lead', '') + k + eq + v + lay.get('trail', '')
    head = [kv('name', '"%s"' % name), kv('version', '1')] + ([kv('client policy', 'true')] if pol.get('_client') else [])
    lines = [kv('allow_algorithm_subset_and_reordering', lay.get('true', 'true') if pol['subset'] else 'false'),
             kv('allow_larger_keys', lay.get('true', 'true') if pol['larger'] else 'false')]
    if pol.get('banner') is not None:
        lines.append(kv('banner', '"%s"' % pol['banner']))
    if pol.get('comp') is not None:
        lines.append(kv('compressions', sep.join(pol['comp'])))
    if pol.get('sizes') and lay.get('oldsizes') and old_format_can_say(pol['sizes']):
        # the older per-key directives (still read, with a deprecation notice): one hostkey_size_<type> line, followed by a cakey_size_<type> line for a certificate; the CA type is implied by the host-key type
        for t, e in pol['sizes'].items():
            lines.append(kv('hostkey_size_' + t, str(e['hostkey_size'])) + ('\n' + kv('cakey_size_' + t, str(e['ca_key_size'])) if e.get('ca_key_size') else ''))
    elif pol.get('sizes'):
        lines.append(kv('host_key_sizes', json.dumps(pol['sizes'])))
    if pol.get('dh') and lay.get('oldsizes'):
        for a, n in pol['dh'].items():
            lines.append(kv('dh_modulus_size_' + a, str(n)))
    elif pol.get('dh'):
        lines.append(kv('dh_modulus_sizes', json.dumps(pol['dh'])))
    if pol.get('optional') is not None:
        lines.append(kv('optional host keys', sep.join(pol['optional'])))
    for f in ('key', 'kex', 'enc', 'mac'):
        if pol.get(f) is not None:
            lines.append(kv(FIELD_POLICY_KEY[f], sep.join(pol[f])))
    if lay.get('shuffle'):
        random.Random(lay['seed']).shuffle(lines)
    lines = head + lines
    if lay.get('comments'):
        out = ['# a comment line', '']
        for l in lines:
            out += [l, '', '   # indented comment = with, separators']
        lines = out
    return '\n'.join(lines) + '\n'


def real_eval(pol, peer):
    from ssh_audit.policy import Policy
    from ssh_audit.ssh2_kex import SSH2_Kex
    from ssh_audit.banner import Banner
    from ssh_audit.outputbuffer import OutputBuffer
    import contextlib
    import io
    with contextlib.redirect_stdout(io.StringIO()):   # the deprecation notice of the older size directives
        p = Policy(policy_data=policy_text(pol))
    k = audit.sym_kex(peer['kex'], peer['key'], peer['enc'], peer['mac'], comp=peer['comp'])
    if peer.get('_other'):
        # other lists in the other direction (client-to-server): the policy is about the lists the report shows, for server and client policies alike
        k['enc_cs'], k['mac_cs'], k['comp_cs'] = list(peer['_other']['enc']), list(peer['_other']['mac']), list(peer['_other']['comp'])
    kex = SSH2_Kex.parse(OutputBuffer(), wire.kexinit_payload(k)[1:])
    for t, s in (peer.get('sizes') or {}).items():
        kex.set_host_key(t, b'', s['hostkey_size'], s.get('ca_key_type', ''), s.get('ca_key_size', 0))
    for a, s in (peer.get('dh') or {}).items():
        kex.set_dh_modulus_size(a, s)
    passed, errors, text = p.evaluate(Banner.parse(peer['banner']) if peer.get('banner') else None, kex)
    return passed, errors, text


def _v(key, what, **d):
    return {'key': key, 'what': what, 'detail': d}


def compare(pol, peer, viol, stats):
    try:
        passed, errors, text = real_eval(pol, peer)
    except Exception as e:
        import traceback
        where = 'policy-load' if 'policy.py' in traceback.format_exc() and '__init__' in traceback.format_exc() else 'evaluate'
        k = 'C06/%s-raises:%s' % (where, type(e).__name__)
        viol.setdefault(k, _v(k, 'Policy.evaluate raised', policy=pol, peer=peer, err=repr(e)))
        return None
    stats['evaluations'] += 1
    bad, dc = model(pol, peer)
    got = {classify(e['mismatched_field']) for e in errors}
    if passed != (len(errors) == 0):
        k = 'C06/passed-vs-errors'
        viol.setdefault(k, _v(k, 'passed is not equivalent to an empty error list', policy=pol, peer=peer, passed=passed, errors=errors))
    for e in errors:
        if not e.get('mismatched_field') or 'expected_required' not in e or 'actual' not in e or e['actual'] in (None, []) or e['expected_required'] in (None, []):
            k = 'C06/error-shape'
            viol.setdefault(k, _v(k, 'an error lacks field/expected/actual', error=e))
        elif e['mismatched_field'] not in text:
            k = 'C06/error-not-in-text'
            viol.setdefault(k, _v(k, 'an error is missing from the text block', error=e, text=text[:300]))
    missing = bad - got
    extra = got - bad - dc
    if missing:
        k = 'C06/missed-mismatch:%s:%s' % (sorted(missing)[0], 'subset' if pol['subset'] else 'exact')
        viol.setdefault(k, _v(k, 'the model says this field is violated but the policy audit does not report it', policy=pol, peer=peer, got=sorted(got), want=sorted(bad)))
    if extra:
        k = 'C06/spurious-mismatch:%s:%s' % (sorted(extra)[0], 'subset' if pol['subset'] else 'exact')
        viol.setdefault(k, _v(k, 'the policy audit reports a field the model says is satisfied', policy=pol, peer=peer, got=sorted(got), want=sorted(bad)))
    if bad:
        stats['model_fail'] += 1
    elif not dc:
        stats['model_pass'] += 1
    return passed


def base_peer():
    return {'kex': ['a'], 'key': ['a'], 'enc': ['a'], 'mac': ['a'], 'comp': ['none'], 'banner': 'SSH-2.0-X_1', 'sizes': {}, 'dh': {}}


def base_pol(flags):
    return {'subset': bool(flags & 1), 'larger': bool(flags & 2), 'kex': None, 'key': None, 'enc': None, 'mac': None, 'optional': None, 'sizes': None, 'dh': None, 'banner': None, 'comp': None}


def subsets(s):
    return [list(c) for n in range(len(s) + 1) for c in itertools.combinations(s, n)]


# ----------------------------------------------------------------------------- cases
def cases(tier, seed):
    rng = random.Random(seed * 101 + 6)
    cs = []
    L = all_lists(U['enc'])
    chunk = 5 if tier == 'thorough' else 17
    for f in ('kex', 'enc', 'mac'):
        for flags in range(4):
            for lo in range(0, len(L), chunk):
                cs.append({'kind': 'single', 'field': f, 'flags': flags, 'lo': lo, 'hi': min(len(L), lo + chunk), 'stride': 1 if tier == 'thorough' else 3, 'off': rng.randrange(3)})
    opts = subsets(U['key'])
    for flags in range(4):
        for oi in range(len(opts) + 1):
            if tier == 'quick' and oi % 4 != (seed + flags) % 4:
                continue
            for lo in range(0, len(L), 17):
                cs.append({'kind': 'single', 'field': 'key', 'flags': flags, 'lo': lo, 'hi': min(len(L), lo + 17), 'opt': oi, 'stride': 1 if tier == 'thorough' else 4, 'off': rng.randrange(4)})
    for f1, f2 in itertools.combinations(('kex', 'key', 'enc', 'mac'), 2):
        for flags in range(4):
            cs.append({'kind': 'pair', 'f1': f1, 'f2': f2, 'flags': flags, 'stride': 1 if tier == 'thorough' else 9, 'off': rng.randrange(9)})
    for flags in range(4):
        cs.append({'kind': 'sizes', 'flags': flags})
    for i in range(20 if tier == 'quick' else 200):
        cs.append({'kind': 'random', 'seed': rng.randrange(1 << 30), 'n': 250})
    for i in range(40 if tier == 'quick' else 600):
        cs.append({'kind': 'cli', 'seed': rng.randrange(1 << 30), 'json': i % 2 == 0})
    for i in range(6 if tier == 'quick' else 60):
        cs.append({'kind': 'cli-multi', 'seed': rng.randrange(1 << 30), 'threads': [1, 2, 4][i % 3]})
    return cs


def new_stats():
    return {'evaluations': 0, 'model_pass': 0, 'model_fail': 0, 'metamorphic_checks': 0}


def run_single(c):
    f = c['field']
    L = all_lists(U[f])
    viol, st = {}, new_stats()
    opts = subsets(U['key']) + [None]
    i = 0
    for pl in L[c['lo']:c['hi']]:
        pol = base_pol(c['flags'])
        pol[f] = pl if pl else ['']
        if f == 'key':
            pol['optional'] = opts[c.get('opt', len(opts) - 1)]
            if pol['optional'] == []:
                pol['optional'] = ['']
        for ql in L:
            i += 1
            if i % c['stride'] != c['off'] % c['stride']:
                continue
            peer = base_peer()
            peer[f] = ql if ql else ['']
            passed = compare(pol, peer, viol, st)
            # metamorphic: under subset mode removing a name from a passing peer keeps it passing
            if passed and pol['subset'] and len(ql) > 1:
                for j in range(len(ql)):
                    sub = ql[:j] + ql[j + 1:]
                    if f == 'kex' and MARK in pl and MARK not in sub:
                        continue
                    p2 = dict(peer)
                    p2[f] = sub
                    st['metamorphic_checks'] += 1
                    try:
                        ok2 = real_eval(pol, p2)[0]
                    except Exception:
                        ok2 = None
                    if ok2 is False:
                        k = 'C06/subset-not-monotone:' + f
                        viol.setdefault(k, _v(k, 'removing a name from a passing peer under subset mode made it fail', policy=pol, peer=peer, shrunk=sub))
        if len(viol) > 12:
            break
    return list(viol.values()), st


def run_pair(c):
    f1, f2 = c['f1'], c['f2']
    L1 = all_lists(U[f1][:3], 2)
    L2 = all_lists(U[f2][:3], 2)
    if f1 == 'kex':
        L1 = all_lists(['a', MARK, 'b'], 2)
    viol, st = {}, new_stats()
    i = 0
    for p1, p2, q1, q2 in itertools.product(L1, L2, L1, L2):
        i += 1
        if i % c['stride'] != c['off'] % c['stride']:
            continue
        pol = base_pol(c['flags'])
        pol[f1], pol[f2] = p1 or [''], p2 or ['']
        peer = base_peer()
        peer[f1], peer[f2] = q1 or [''], q2 or ['']
        compare(pol, peer, viol, st)
        if len(viol) > 12:
            break
    return list(viol.values()), st


def run_sizes(c):
    viol, st = {}, new_stats()
    cas = [('', 0), ('ssh-rsa', 2048), ('ssh-rsa', 4096), ('ssh-ed25519', 256)]
    t = 'ssh-rsa-cert-v01@openssh.com'
    for ps, pca, qs, qca in itertools.product(SIZES, cas, SIZES, cas):
        pol = base_pol(c['flags'])
        peer = base_peer()
        if ps is not None:
            pol['sizes'] = {t: {'hostkey_size': ps}}
            if pca[0]:
                pol['sizes'][t].update({'ca_key_type': pca[0], 'ca_key_size': pca[1]})
        if qs is not None:
            peer['sizes'] = {t: {'hostkey_size': qs, 'ca_key_type': qca[0], 'ca_key_size': qca[1]}}
        if pol.get('sizes') and old_format_can_say(pol['sizes']) and ((qs or 0) // 1024 + qca[1] // 256) % 2:
            pol['_layout'] = {'oldsizes': True}
            st['old_size_directives'] = st.get('old_size_directives', 0) + 1
        passed = compare(pol, peer, viol, st)
        if passed and pol['larger'] and qs is not None:
            for grow in (qs + 64, qs * 2):
                p2 = json.loads(json.dumps(peer))
                p2['sizes'][t]['hostkey_size'] = grow
                if qca[1]:
                    p2['sizes'][t]['ca_key_size'] = qca[1] * 2
                st['metamorphic_checks'] += 1
                if real_eval(pol, p2)[0] is False:
                    k = 'C06/larger-keys-not-monotone'
                    viol.setdefault(k, _v(k, 'growing a key of a passing peer under larger-keys mode made it fail', policy=pol, peer=peer, grown=p2['sizes']))
    # several entries at once, where the plain host-key type of one entry is the CA type of another and the expected sizes differ per role
    V = [2048, 3072, 4096]
    for hp, cp, cap in itertools.product(V, V, V):
        for hq, cq, caq in itertools.product(V, V, V):
            pol = base_pol(c['flags'])
            peer = base_peer()
            pol['sizes'] = {'ssh-rsa': {'hostkey_size': hp}, 'rsa-sha2-512-cert-v01@openssh.com': {'hostkey_size': cp, 'ca_key_type': 'ssh-rsa', 'ca_key_size': cap}}
            peer['sizes'] = {'ssh-rsa': {'hostkey_size': hq, 'ca_key_type': '', 'ca_key_size': 0}, 'rsa-sha2-512-cert-v01@openssh.com': {'hostkey_size': cq, 'ca_key_type': 'ssh-rsa', 'ca_key_size': caq}}
            st['multi_entry_size_maps'] = st.get('multi_entry_size_maps', 0) + 1
            if (hp + cp // 1024 + caq // 1024) % 2:
                pol['_layout'] = {'oldsizes': True}
                st['old_size_directives'] = st.get('old_size_directives', 0) + 1
            compare(pol, peer, viol, st)
    for pd, qd in itertools.product(SIZES, SIZES):
        pol = base_pol(c['flags'])
        peer = base_peer()
        if pd is not None:
            pol['dh'] = {GEX: pd}
        if qd is not None:
            peer['dh'] = {GEX: qd}
        compare(pol, peer, viol, st)
    # banner and compression
    # (the banner is free text after the software name: '=', '#' and ',' - the separators of the policy file - may occur in it, with or without blanks around them)
    FREE = ['SSH-2.0-Y_2 rev = 7', 'SSH-2.0-Y_2 rev=7', 'SSH-2.0-Y_2 a # b', 'SSH-2.0-Y_2 k=v, w = z', 'SSH-2.0-Y_2 x=',
            'SSH-2.0-Y_2 build "2024.1"', 'SSH-2.0-Y_2 say "hi" now', 'SSH-2.0-Y_2 x"']   # ... and double quotes, also as the last character (the value is written between quotes)
    for pb, qb in list(itertools.product([None, 'SSH-2.0-X_1', 'SSH-2.0-Y_2'], ['SSH-2.0-X_1', 'SSH-2.0-Y_2 c'])) + list(itertools.product(FREE, FREE)):
        if pb in FREE:
            st['free_text_banners'] = st.get('free_text_banners', 0) + 1
        for pc, qc in itertools.product([None, ['none'], ['none', 'zlib@openssh.com'], ['zlib@openssh.com', 'none']], [['none'], ['none', 'zlib@openssh.com']]):
            pol = base_pol(c['flags'])
            peer = base_peer()
            pol['banner'], pol['comp'] = pb, pc
            peer['banner'], peer['comp'] = qb, qc
            compare(pol, peer, viol, st)
    return list(viol.values()), st


def rand_instance(rng, names):
    pol = base_pol(rng.randrange(4))
    peer = base_peer()
    for f in ('kex', 'key', 'enc', 'mac'):
        pool = rng.sample(names[f], min(len(names[f]), rng.randint(20, 60)))
        if f == 'kex' and rng.random() < .5 and MARK not in pool:
            pool.append(MARK)
        mode = rng.choice(['same', 'same', 'subset', 'reorder', 'extra', 'drop-one', 'swap'])
        have = list(pool)
        if mode == 'subset':
            have = [x for x in pool if rng.random() < .6] or pool[:1]
        elif mode == 'reorder':
            rng.shuffle(have)
        elif mode == 'extra':
            have.insert(rng.randrange(len(have) + 1), 'extra-' + f)
        elif mode == 'drop-one':
            del have[rng.randrange(len(have))]
            have = have or ['x']
        elif mode == 'swap' and len(have) > 1:
            i = rng.randrange(len(have) - 1)
            have[i], have[i + 1] = have[i + 1], have[i]
        if rng.random() < .85:
            pol[f] = pool
        peer[f] = have
    if rng.random() < .4:
        pol['optional'] = rng.sample(names['key'], 3)
        if rng.random() < .5:
            peer['key'] = peer['key'] + [pol['optional'][0]]
    if rng.random() < .5:
        s = rng.choice([2048, 3072, 4096])
        pol['sizes'] = {'ssh-rsa': {'hostkey_size': s}}
        peer['sizes'] = {'ssh-rsa': {'hostkey_size': rng.choice([s, s, s + 1024, s - 1024]), 'ca_key_type': '', 'ca_key_size': 0}}
    if rng.random() < .5:
        s = rng.choice([2048, 3072, 4096])
        pol['dh'] = {GEX: s}
        peer['dh'] = {GEX: rng.choice([s, s, s + 1024, s - 1024])}
    return pol, peer


def run_random(c):
    rng = random.Random(c['seed'])
    names = audit.db_names()
    viol, st = {}, new_stats()
    for i in range(c['n']):
        pol, peer = rand_instance(rng, names)
        if i % 3 == 0:
            # the peer's lists of the other direction differ (other names, other order); every fourth policy is a client policy
            peer['_other'] = {'enc': rng.sample(names['enc'], 3), 'mac': rng.sample(names['mac'], 2), 'comp': rng.choice([['none'], ['zlib@openssh.com', 'none'], ['zlib']])}
            st['peers_with_other_lists_per_direction'] = st.get('peers_with_other_lists_per_direction', 0) + 1
        if i % 4 == 3:
            pol['_client'] = True
            st['client_policies'] = st.get('client_policies', 0) + 1
        if i % 2:
            # the same policy spelled differently in the file (separators, blanks, comments, field order, flag case): same fields specified, same verdict
            pol['_layout'] = rand_layout(rng)
            st['other_file_layouts'] = st.get('other_file_layouts', 0) + 1
        compare(pol, peer, viol, st)
    return list(viol.values()), st


def run_cli(c):
    """Wiring: the same pair through `-P file` against a scripted peer; status, JSON and text must agree with the model."""
    rng = random.Random(c['seed'])
    names = {'kex': ['curve25519-sha256', 'diffie-hellman-group16-sha512', 'sntrup761x25519-sha512@openssh.com', MARK, 'diffie-hellman-group14-sha256', GEX],
             'key': ['ssh-ed25519', 'rsa-sha2-512', 'rsa-sha2-256', 'ssh-rsa', 'ecdsa-sha2-nistp256'],
             'enc': ['aes256-gcm@openssh.com', 'aes128-gcm@openssh.com', 'aes256-ctr', 'aes192-ctr', 'aes128-ctr', 'chacha20-poly1305@openssh.com'],
             'mac': ['hmac-sha2-256-etm@openssh.com', 'hmac-sha2-512-etm@openssh.com', 'umac-128-etm@openssh.com', 'hmac-sha2-256']}
    pol = base_pol(rng.randrange(4))
    peer = base_peer()
    peer['banner'] = 'SSH-2.0-OpenSSH_9.3'
    for f in ('kex', 'key', 'enc', 'mac'):
        pool = rng.sample(names[f], rng.randint(2, len(names[f])))
        have = list(pool)
        m = rng.choice(['same', 'same', 'subset', 'reorder', 'extra'])
        if m == 'subset':
            have = have[:max(1, len(have) - 1)]
        elif m == 'reorder':
            have = have[::-1]
        elif m == 'extra':
            have = have + [x for x in names[f] if x not in have][:1]
        pol[f], peer[f] = pool, have
    rsa_bits = rng.choice([2048, 3072, 4096])
    hk = {'ssh-ed25519': {'type': 'ed25519'}, 'ecdsa-sha2-nistp256': {'type': 'ecdsa', 'bits': 256}}
    for t in ('rsa-sha2-512', 'rsa-sha2-256', 'ssh-rsa'):
        hk[t] = {'type': 'rsa', 'bits': rsa_bits}
    gex_bits = rng.choice([2048, 3072, 4096])
    can_probe = any(x in peer['kex'] for x in ('curve25519-sha256', 'diffie-hellman-group16-sha512', 'diffie-hellman-group14-sha256', GEX))   # without such a key exchange the tool cannot fetch host keys, so no size is measured
    if can_probe and any(t in peer['key'] for t in ('rsa-sha2-512', 'rsa-sha2-256', 'ssh-rsa')) and rng.random() < .7:
        want = rng.choice([rsa_bits, rsa_bits, 3072])
        pol['sizes'] = {t: {'hostkey_size': want} for t in ('rsa-sha2-512', 'rsa-sha2-256', 'ssh-rsa')}
        # what the tool will measure (the key exchange used for probing must be one it supports, true for all pools above)
        peer['sizes'] = {t: {'hostkey_size': rsa_bits, 'ca_key_type': '', 'ca_key_size': 0} for t in ('rsa-sha2-512', 'rsa-sha2-256', 'ssh-rsa')}
    if GEX in peer['kex'] and rng.random() < .7:
        pol['dh'] = {GEX: rng.choice([gex_bits, gex_bits, 3072])}
        peer['dh'] = {GEX: gex_bits}
    d = runner.scratch_dir('c06')
    try:
        pf = os.path.join(d, 'policy.txt')
        with open(pf, 'w') as f:
            f.write(policy_text(pol, 'cli'))
        script = {'banner': peer['banner'], 'kex': audit.sym_kex(peer['kex'], peer['key'], peer['enc'], peer['mac']), 'hostkeys': hk, 'gex': {'sizes': [gex_bits], 'style': 'strict'}}
        r, p = audit.audit_server(script, ['-P', pf] + (['-j'] if c['json'] else ['-n']), cwd=d)
    finally:
        runner.cleanup(d)
    bad, dc = model(pol, peer)
    viol = []
    if dc:
        return [], {'cli_dontcare': 1}
    want_status = 3 if bad else 0
    if r.status != want_status:
        viol.append(_v('C06/cli-status:%s' % ('missed' if bad else 'spurious'), 'policy audit exit status disagrees with the model', policy=pol, peer=peer, status=r.status, want=want_status, out=r.out[-500:]))
    if c['json']:
        try:
            doc = json.loads(r.out)
            got = {classify(e['mismatched_field']) for e in doc['errors']}
            if doc['passed'] != (not bad) or got != bad:
                viol.append(_v('C06/cli-json', 'JSON verdict/errors disagree with the model', got=sorted(got), want=sorted(bad), passed=doc['passed']))
        except (ValueError, KeyError):
            viol.append(_v('C06/cli-json-unparsable', 'policy JSON output unparsable', out=r.out[:300]))
    else:
        pt = report.parse_policy_text(r.out)
        got = {classify(e) for e in pt['errors']}
        if (pt['result'] == 'passed') != (not bad) or got != bad:
            viol.append(_v('C06/cli-text', 'text verdict/errors disagree with the model', got=sorted(got), want=sorted(bad), result=pt['result']))
    return viol, {'cli_runs': 1, 'model_fail': 1 if bad else 0, 'model_pass': 0 if bad else 1}


def run_cli_multi(c):
    """One policy, several peers in one -T -j run: every entry must equal the model's verdict for *that* peer (passed <=> no errors; errors name fields of that peer)."""
    from harness import multi
    rng = random.Random(c['seed'])
    base = {'kex': ['curve25519-sha256', MARK], 'key': ['ssh-ed25519'], 'enc': ['aes256-gcm@openssh.com', 'aes128-ctr'], 'mac': ['hmac-sha2-256-etm@openssh.com', 'hmac-sha2-512']}
    pol = base_pol(rng.choice([0, 1]))
    for f in base:
        pol[f] = list(base[f])
    variants = []
    extra = {'kex': 'diffie-hellman-group14-sha256', 'key': 'ecdsa-sha2-nistp256', 'enc': '3des-cbc', 'mac': 'hmac-md5'}
    for f in rng.sample(list(base), 3):
        v = {k: list(x) for k, x in base.items()}
        v[f] = v[f] + [extra[f]]
        variants.append(v)
    variants.append({k: list(x) for k, x in base.items()})
    rng.shuffle(variants)
    variants.append({k: list(x) for k, x in base.items()})
    d = runner.scratch_dir('c06m')
    targets = []
    viol, counters = [], {'cli_runs': 1, 'cli_multi_entries': 0, 'model_pass': 0, 'model_fail': 0}
    try:
        pf = os.path.join(d, 'p.txt')
        with open(pf, 'w') as f:
            f.write(policy_text(pol, 'multi'))
        for i, v in enumerate(variants):
            targets.append(multi.Target('v%d' % i, {'banner': 'SSH-2.0-OpenSSH_9.3', 'kex': audit.sym_kex(v['kex'], v['key'], v['enc'], v['mac']), 'hostkeys': {}, 'hostkey_default': None, 'gex': None}))
        res = multi.run_multi(targets, c['threads'], 'json', extra=['-P', pf], timeout=120)
        for t, v in zip(targets, variants):
            peer = base_peer()
            peer.update(v)
            peer['banner'] = 'SSH-2.0-OpenSSH_9.3'
            bad, dc = model(pol, peer)
            docs = (res.get('docs') or {}).get('127.0.0.1:%d' % t.peer.port) or []
            if not docs:
                viol.append(_v('C06/cli-multi-entry-missing', 'no JSON entry for a target', err=res.get('json_error')))
                continue
            counters['cli_multi_entries'] += 1
            counters['model_fail' if bad else 'model_pass'] += 1
            doc = docs[0]
            got = {classify(e['mismatched_field']) for e in doc.get('errors') or []}
            if doc.get('passed') != (len(doc.get('errors') or []) == 0):
                viol.append(_v('C06/passed-vs-errors:multi-target', 'passed is not equivalent to an empty error list for a target of a multi-target policy run', passed=doc.get('passed'), errors=sorted(got), threads=c['threads']))
            if got != bad or doc.get('passed') != (not bad):
                viol.append(_v('C06/cli-multi-verdict', 'the entry of a target in a multi-target policy run disagrees with the model for that peer', got=sorted(got), want=sorted(bad), passed=doc.get('passed')))
            for e in doc.get('errors') or []:
                f = {'Key exchanges': 'kex', 'Host keys': 'key', 'Ciphers': 'enc', 'MACs': 'mac'}.get(e['mismatched_field'])
                if f and e.get('actual') != v[f]:
                    viol.append(_v('C06/error-actual-of-other-peer', 'an error\'s actual value does not describe this peer', field=e['mismatched_field'], actual=e.get('actual'), this_peer=v[f]))
    finally:
        for t in targets:
            t.stop()
        runner.cleanup(d)
    return viol, counters


def run_case(c):
    fn = {'cli-multi': run_cli_multi, 'single': run_single, 'pair': run_pair, 'sizes': run_sizes, 'random': run_random, 'cli': run_cli}[c['kind']]
    viol, counters = fn(c)
    nontrivial = counters.get('model_pass', 0) + counters.get('model_fail', 0) > 0
    return {'violations': viol, 'counters': counters, 'nontrivial': nontrivial, 'sample': {'case': c, 'observed': counters}, 'sample_kind': c['kind']}
