"""C04 - Terrapin (CVE-2023-48795) exposure is flagged exactly per the published rule."""
import itertools
import json
import random
import re

from harness import audit, gen, report

ID = 'C04'
LEVEL = 'exploration'
SHARDS = 16
THREADS = 2
EXHAUSTIVE = True
RULE = ('exhaustive boolean space role(server, client) x marker(own, other role\'s, both, none) x ChaCha(0,1) x CBC ciphers(0,1,2) x ETM MACs(0,1,2) = 144 combinations, each audited for real in text and JSON, '
        'instantiated with database names of each shape (quick: random matching names; thorough: every matching database name in every combination class, plus unknown names of the same shapes); '
        'oracle = 10-line model of the published rule over (flagged set, advisory names, additions recommended); a case is non-trivial when the audit completed and the flagged set was compared; '
        'distinct = distinct (combination, instantiation, rendering)')
REQUIRED = {'putty_clients': 10, 'runs_with_rate_check': 4, 'openssh_2048_group_exchange_runs': 8, 'cross_category_cases': 10, 'multi_target_blocks': 8, 'audits_completed': 100, 'flagged_sets_compared': 100, 'expected_exposed': 20, 'expected_advisory': 20, 'client_role': 20}
ASSUMPTIONS = ['with different lists per direction the peer\'s own sending direction decides (client-to-server lists of a client, server-to-client lists of a server); the report can only show warnings on the names it displays (server-to-client lists)', 'shapes are the published ones: prefix chacha20-poly1305; suffixes -cbc, -cbc@openssh.org, -cbc@ssh.com, rijndael-cbc@lysator.liu.se; suffix -etm@openssh.com',
               '"carries the Terrapin warning" = a warning- or failure-level note naming CVE-2023-48795 (the strict-kex pseudo algorithm\'s informational text is not a warning)']
MANIFEST = {
    'text': 'Exploration, exhaustive over the 144-combination boolean space of the published rule (every combination is executed as a real audit in text and JSON); name instantiation is sampled in quick and complete over database names in thorough.',
    'note': 'The model is the published Terrapin rule written from the statement; ground truth of what was advertised is the scripted peer; trusts report parsers.',
    'technique': 'boundary monitoring of real audits against an executable reference model of the Terrapin rule over an exhaustively enumerated configuration space',
}
MARK_S, MARK_C = 'kex-strict-s-v00@openssh.com', 'kex-strict-c-v00@openssh.com'
CVE = 'CVE-2023-48795'


def shapes():
    names = audit.db_names()
    cha = [n for n in names['enc'] if n.startswith('chacha20-poly1305')]
    cbc = [n for n in names['enc'] if n.endswith('-cbc') or n.endswith('-cbc@openssh.org') or n.endswith('-cbc@ssh.com') or n == 'rijndael-cbc@lysator.liu.se']
    etm = [n for n in names['mac'] if n.endswith('-etm@openssh.com')]
    return cha, cbc, etm


def cases(tier, seed):
    rng = random.Random(seed * 17 + 4)
    cha, cbc, etm = shapes()
    cs = []
    combos = list(itertools.product(['server', 'client'], ['own', 'other', 'both', 'none'], [0, 1], [0, 1, 2], [0, 1, 2]))
    for role, marker, nch, ncb, net in combos:
        for rnd in ('text', 'json'):
            cs.append({'kind': 'combo', 'role': role, 'marker': marker, 'cha': rng.sample(cha, nch), 'cbc': rng.sample(cbc, ncb), 'etm': rng.sample(etm, net), 'render': rnd, 'seed': rng.randrange(1 << 30)})
            if nch and (tier == 'thorough' or (ncb + net) % 2 == 0):
                # the ChaCha name is also listed as a MAC (some servers do): the warning belongs to the cipher entry only
                cs.append({'kind': 'combo', 'role': role, 'marker': marker, 'cha': rng.sample(cha, nch), 'cbc': rng.sample(cbc, ncb), 'etm': rng.sample(etm, net), 'render': rnd, 'seed': rng.randrange(1 << 30), 'cross': True})
    if tier == 'thorough':
        # every matching database name appears in every combination class it can appear in
        for role, marker in itertools.product(['server', 'client'], ['own', 'other', 'both', 'none']):
            for n in cha:
                for ncb, net in ((0, 0), (1, 1), (1, 0)):
                    cs.append({'kind': 'combo', 'role': role, 'marker': marker, 'cha': [n], 'cbc': rng.sample(cbc, ncb), 'etm': rng.sample(etm, net), 'render': rng.choice(['text', 'json']), 'seed': rng.randrange(1 << 30)})
            for n in cbc:
                for nch, net in ((0, 0), (0, 1), (1, 2), (1, 0)):
                    others = rng.sample([x for x in cbc if x != n], rng.randint(0, 1))
                    cs.append({'kind': 'combo', 'role': role, 'marker': marker, 'cha': rng.sample(cha, nch), 'cbc': [n] + others, 'etm': rng.sample(etm, net), 'render': rng.choice(['text', 'json']), 'seed': rng.randrange(1 << 30)})
            for n in etm:
                for nch, ncb in ((0, 0), (0, 1), (1, 2), (1, 0)):
                    others = rng.sample([x for x in etm if x != n], rng.randint(0, 1))
                    cs.append({'kind': 'combo', 'role': role, 'marker': marker, 'cha': rng.sample(cha, nch), 'cbc': rng.sample(cbc, ncb), 'etm': [n] + others, 'render': rng.choice(['text', 'json']), 'seed': rng.randrange(1 << 30)})
    # OpenSSH servers whose group exchange is measured at 2048 bits: another run-time edit of the rating table and of the recommendation suppression happens right before the Terrapin logic
    for marker in ('none', 'own'):
        for nch, ncb, net in ((0, 0, 0), (1, 0, 0), (0, 1, 1), (1, 2, 2)):
            for rnd in ('text', 'json'):
                cs.append({'kind': 'combo', 'role': 'server', 'marker': marker, 'cha': rng.sample(cha, nch), 'cbc': rng.sample(cbc, ncb), 'etm': rng.sample(etm, net), 'render': rnd, 'seed': rng.randrange(1 << 30), 'gex2048': True})
    # names that merely look like the strict-kex marker (another version number, another spelling): they are unknown names, not the marker
    LOOKALIKES = ['kex-strict-%-v01@openssh.com', 'kex-strict-%-v0@openssh.com', 'kex-strict-%-v000@openssh.com', 'kex-strict-%-v10@openssh.com', 'kex-strict-%@openssh.com', 'KEX-STRICT-%-V00@OPENSSH.COM',
                  'kex-strict-%-v00@openssh.com.', 'kex-strict-%-v00', 'xkex-strict-%-v00@openssh.com', 'kex-strict-%-v00@openssh.org', 'kex-strict-%-v99@openssh.com', 'kex-strict-v00@openssh.com']
    for i, la in enumerate(LOOKALIKES):
        for role in (('server', 'client') if tier == 'thorough' else (['server', 'client'][i % 2],)):
            cs.append({'kind': 'combo', 'role': role, 'marker': ['none', 'other'][i % 2], 'cha': rng.sample(cha, 1), 'cbc': rng.sample(cbc, 1), 'etm': rng.sample(etm, 1), 'render': ['text', 'json'][(i // 2) % 2], 'seed': rng.randrange(1 << 30), 'lookalike': la})
    # unknown cipher names that merely END in the one name the published rule lists by equality (rijndael-cbc@lysator.liu.se), or contain a CBC suffix in the middle: not CBC ciphers of the rule, so ETM MACs beside them are not exposed
    for i, xe in enumerate(['cascade-rijndael-cbc@lysator.liu.se', 'x-rijndael-cbc@lysator.liu.se', 'aes128-cbc@openssh.org.example', 'aes256-cbc@ssh.com.example', 'aes128-cbcx', 'rijndael-cbc@lysator.liu.se.example']):
        for marker in (('none', 'own') if tier == 'thorough' else (['none', 'own'][i % 2],)):
            cs.append({'kind': 'combo', 'role': ['server', 'client'][i % 2], 'marker': marker, 'cha': [], 'cbc': [], 'etm': rng.sample(etm, 1 + i % 2), 'render': ['text', 'json'][(i // 2) % 2], 'seed': rng.randrange(1 << 30), 'extra_enc': xe})
    # the connection-rate check runs as well (everything else here skips it): its note lands in the same list as the strict-kex advisory
    for marker in ('own', 'none'):
        for rnd in ('text', 'json'):
            cs.append({'kind': 'combo', 'role': 'server', 'marker': marker, 'cha': rng.sample(cha, 1), 'cbc': rng.sample(cbc, 1), 'etm': rng.sample(etm, 1), 'render': rnd, 'seed': rng.randrange(1 << 30), 'rate': True})
    # asymmetric direction lists: the peer's own sending direction decides (client-to-server lists for clients, server-to-client lists for servers)
    for role, marker in itertools.product(['server', 'client'], ['own', 'none']):
        for pat in ('etm_cs_only', 'etm_sc_only', 'cbc_cs_only', 'cbc_sc_only', 'cha_cs_only', 'cha_sc_only'):
            for rnd in (('text', 'json') if tier == 'thorough' else ('text',)):
                cs.append({'kind': 'asym', 'role': role, 'marker': marker, 'pattern': pat, 'cha': rng.sample(cha, 1), 'cbc': rng.sample(cbc, 1), 'etm': rng.sample(etm, 1), 'render': rnd, 'seed': rng.randrange(1 << 30)})
    # multi-target runs: each target's Terrapin marks follow the rule for that target alone, whatever was scanned before it
    for i in range(4 if tier == 'quick' else 24):
        cs.append({'kind': 'multi', 'order': ['exposed', 'protected', 'exposed-cbc', 'plain'] if i % 2 == 0 else ['exposed-cbc', 'plain', 'exposed', 'protected'], 'threads': 1 if i % 4 < 2 else 2, 'render': 'json' if i % 3 == 0 else 'text', 'seed': rng.randrange(1 << 30),
                   'cha': [], 'cbc': [], 'etm': [], 'role': 'server', 'marker': 'none'})
    # unknown names of the same shapes
    unk = [('cha', 'chacha20-poly1305@example.org'), ('cbc', 'zzfoo256-cbc'), ('cbc', 'zzbar-cbc@ssh.com'), ('etm', 'zz-hmac-sha3-etm@openssh.com')]
    for role, marker in itertools.product(['server', 'client'], ['own', 'none']):
        for shape, name in unk:
            if tier == 'quick' and (role, marker, shape) not in (('server', 'none', 'cbc'), ('server', 'own', 'etm'), ('client', 'none', 'cha'), ('server', 'none', 'etm')):
                continue
            c = {'kind': 'unknown-shape', 'role': role, 'marker': marker, 'cha': [], 'cbc': [], 'etm': [], 'render': 'text', 'seed': rng.randrange(1 << 30), 'unknown': name}
            c[shape] = [name]
            if shape == 'cbc':
                c['etm'] = rng.sample(etm, 1)
            if shape == 'etm':
                c['cbc'] = rng.sample(cbc, 1)
            cs.append(c)
            # ... and the unknown name in front of / behind a known name of the same shape: the known one is flagged wherever it stands
            pool = {'cha': cha, 'cbc': cbc, 'etm': etm}[shape]
            for k_, order in enumerate(('unknown-first', 'unknown-last')):
                if tier == 'quick' and shape == 'cha' and k_:
                    continue
                c2 = dict(c, seed=rng.randrange(1 << 30), beside=order)
                known = rng.sample([x for x in pool if x != name], 1)
                c2[shape] = [name] + known if order == 'unknown-first' else known + [name]
                cs.append(c2)
    return cs


def _v(key, what, **d):
    return {'key': key, 'what': what, 'detail': d}


def is_shape(n):
    return gen.is_terrapin_shape(n)


def run_multi(c):
    from harness import multi
    specs = {'exposed': (False, ['chacha20-poly1305@openssh.com', 'aes128-ctr'], ['hmac-sha2-256']),
             'protected': (True, ['chacha20-poly1305@openssh.com', 'aes128-cbc', 'aes128-ctr'], ['hmac-sha2-256-etm@openssh.com', 'umac-64-etm@openssh.com']),
             'exposed-cbc': (False, ['aes128-cbc', 'aes256-ctr'], ['umac-64-etm@openssh.com', 'hmac-sha2-512']),
             'plain': (False, ['aes128-cbc', 'aes128-ctr'], ['hmac-sha2-256'])}
    targets = []
    for nm in c['order']:
        marker, enc, mac = specs[nm]
        k = audit.sym_kex(['curve25519-sha256'] + ([MARK_S] if marker else []), ['ssh-ed25519'], enc, mac)
        targets.append(multi.Target(nm, {'banner': 'SSH-2.0-OpenSSH_9.1', 'kex': k, 'hostkeys': {}, 'hostkey_default': None, 'gex': None}))
    try:
        res = multi.run_multi(targets, c['threads'], c['render'], timeout=120)
    finally:
        for t in targets:
            t.stop()
    viol, counters = [], {'audits_completed': 0, 'flagged_sets_compared': 0, 'multi_target_blocks': 0}
    for t in targets:
        marker, enc, mac = specs[t.name]
        cha = [n for n in enc if n.startswith('chacha20')]
        cbc = [n for n in enc if is_shape(n) and not n.startswith('chacha20')]
        etm = [n for n in mac if n.endswith('-etm@openssh.com')]
        V = set(cha) | ((set(cbc) | set(etm)) if cbc and etm else set())
        want = set() if marker else V
        if c['render'] == 'json':
            docs = (res.get('docs') or {}).get(t.spec) or []
            if not docs:
                viol.append(_v('C04/multi-target-block-missing', 'no JSON entry for a target', target=t.name))
                continue
            find = report.json_findings(docs[0])
        else:
            blocks = (res.get('blocks') or {}).get(t.spec) or []
            if not blocks:
                viol.append(_v('C04/multi-target-block-missing', 'no block for a target', target=t.name))
                continue
            find = report.parse_text(blocks[0]).findings()
        flagged = {n for (cat, n, lvl, txt) in find if CVE in txt and lvl in ('warn', 'fail')}
        counters['audits_completed'] += 1
        counters['flagged_sets_compared'] += 1
        counters['multi_target_blocks'] += 1
        if flagged != want:
            viol.append(_v('C04/flagged-%s:multi-target:%s' % ('extra' if flagged - want else 'missing', t.name), 'in a multi-target run a target\'s Terrapin marks differ from the published rule applied to that target', target=t.name, order=c['order'], threads=c['threads'],
                           got=sorted(flagged), want=sorted(want)))
    return {'violations': viol, 'counters': counters, 'nontrivial': counters['multi_target_blocks'] > 0, 'sample': {'case': c, 'observed': counters}, 'sample_kind': 'multi'}


def run_case(c):
    if c['kind'] == 'multi':
        return run_multi(c)
    rng = random.Random(c['seed'])
    names = audit.db_names()
    client = c['role'] == 'client'
    own, other = (MARK_C, MARK_S) if client else (MARK_S, MARK_C)
    kex = ['curve25519-sha256', 'diffie-hellman-group16-sha512']
    if c['marker'] in ('own', 'both'):
        kex.append(own)
    if c['marker'] in ('other', 'both'):
        kex.append(other)
    if c.get('lookalike'):
        kex.append(c['lookalike'].replace('%', 'c' if client else 's'))
    rng.shuffle(kex)
    fill_enc = rng.sample([n for n in names['enc'] if not is_shape(n)], rng.randint(1, 3))
    fill_mac = rng.sample([n for n in names['mac'] if not is_shape(n)], rng.randint(1, 3))
    enc = fill_enc + c['cha'] + c['cbc'] + ([c['extra_enc']] if c.get('extra_enc') else [])
    mac = fill_mac + c['etm'] + (c['cha'] if c.get('cross') else [])
    rng.shuffle(enc)
    rng.shuffle(mac)
    banner = 'SSH-2.0-OpenSSH_9.%d' % rng.randint(0, 9)
    if client and c['seed'] % 3 != 0:
        # clients of other makes: the rule does not depend on who the peer says it is (PuTTY gets an extra note of its own)
        banner = ['SSH-2.0-PuTTY_Release_0.80', 'SSH-2.0-dropbear_2022.83', 'SSH-2.0-PuTTY_Release_0.76', 'SSH-2.0-SomeClient_1.0'][c['seed'] % 4]
    script = {'banner': banner, 'kex': audit.sym_kex(kex, ['ssh-ed25519'], enc, mac), 'hostkeys': {'ssh-ed25519': {'type': 'ed25519'}}, 'gex': None}
    if c.get('rate'):
        kex = kex + ['diffie-hellman-group16-sha512']
        script['kex'] = audit.sym_kex(kex, ['ssh-ed25519'], enc, mac)
    if c.get('gex2048'):
        kex = [x for x in kex if 'group-exchange' not in x] + ['diffie-hellman-group-exchange-sha256']
        script['kex'] = audit.sym_kex(kex, ['ssh-ed25519'], enc, mac)
        script['gex'] = {'sizes': [2048], 'style': 'strict'}
    asym_V = None
    if c['kind'] == 'asym':
        pat = c['pattern']
        shape, side = pat.split('_')[0], pat.split('_')[1]
        own_dir = 'cs' if client else 'sc'
        lists = {'enc_cs': list(fill_enc), 'enc_sc': list(fill_enc), 'mac_cs': list(fill_mac), 'mac_sc': list(fill_mac)}
        # the partner shape (CBC needs ETM and vice versa) is offered in both directions; the shape under test only on one side
        if shape == 'etm':
            lists['enc_cs'] += c['cbc']; lists['enc_sc'] += c['cbc']; lists['mac_' + side] += c['etm']
        elif shape == 'cbc':
            lists['mac_cs'] += c['etm']; lists['mac_sc'] += c['etm']; lists['enc_' + side] += c['cbc']
        else:
            lists['enc_' + side] += c['cha']
        k2 = audit.sym_kex(kex, ['ssh-ed25519'], lists['enc_sc'], lists['mac_sc'], enc_cs=lists['enc_cs'], mac_cs=lists['mac_cs'])
        script['kex'] = k2
        own_enc, own_mac = lists['enc_' + own_dir], lists['mac_' + own_dir]
        v_cha = [n for n in own_enc if n.startswith('chacha20-poly1305')]
        v_cbc = [n for n in own_enc if is_shape(n) and not n.startswith('chacha20')]
        v_etm = [n for n in own_mac if n.endswith('-etm@openssh.com')]
        asym_V = set(v_cha) | ((set(v_cbc) | set(v_etm)) if v_cbc and v_etm else set())
        enc, mac = lists['enc_sc'], lists['mac_sc']   # what the report displays
    args = ['-j'] if c['render'] == 'json' else ['-n']
    if client:
        r, p = audit.audit_client(script, args)
        if p.count('connected') == 0:
            return {'verdict': 'inconclusive', 'why': 'client peer could not connect'}
    elif c.get('rate'):
        r, p = audit.audit_server(script, args, base=[], monitors=['calls'])
    else:
        r, p = audit.audit_server(script, args)
    marker_present = c['marker'] in ('own', 'both')
    V = set(c['cha']) | ((set(c['cbc']) | set(c['etm'])) if c['cbc'] and c['etm'] else set())
    V_adv = V
    if asym_V is not None:
        V_adv = asym_V                              # the advisory names everything exposed in the peer's own direction
        V = asym_V & (set(enc) | set(mac))          # warnings can only be seen on names the report displays
    viol = []
    counters = {'client_role': 1 if client else 0, 'putty_clients': 1 if client and 'PuTTY' in banner else 0}
    if c.get('rate') and any(e['k'] == 'rate-test-enter' for e in (r.monitor or [])):
        counters['runs_with_rate_check'] = 1
    if c.get('gex2048') and p.count('gex-request') > 0:
        counters['openssh_2048_group_exchange_runs'] = 1
    if r.status not in (0, 2, 3):
        unk = c.get('unknown')
        why = 'unknown-name-of-terrapin-shape' if (unk and 'KeyError' in r.out and '_add_terrapin_warning' in r.out) else 'other'
        viol.append(_v('C04/audit-failed:status%s:%s' % (r.status, why), 'audit did not produce a report', status=r.status, out=r.out[-500:], enc=enc, mac=mac))
        return {'violations': viol, 'counters': counters, 'nontrivial': False}
    counters['audits_completed'] = 1
    if c['render'] == 'json':
        try:
            doc = json.loads(r.out)
        except ValueError:
            return {'verdict': 'inconclusive', 'why': 'unparsable json'}
        find = report.json_findings(doc)
        notes = doc.get('additional_notes') or []
        recs_add = [(n, cat) for (sgn, n, cat, lvl, _x) in report.json_recs(doc) if sgn == '+']
    else:
        rep = report.parse_text(r.out)
        find = rep.findings()
        notes = rep.nfo
        recs_add = [(n, cat) for (sgn, n, cat, _a, _b, _c) in rep.recs if sgn == '+']
    flagged = {n for (cat, n, lvl, txt) in find if CVE in txt and lvl in ('warn', 'fail')}
    flagged_cats = {cat for (cat, n, lvl, txt) in find if CVE in txt and lvl in ('warn', 'fail')}
    adv = [t for t in notes if 'strict key exchange' in t and CVE in t]
    adv_names = set()
    for t in adv:
        m = re.search(r'with this target: (.*?)\.  If any', t)
        if m:
            adv_names |= set(m.group(1).split(', '))
    counters['flagged_sets_compared'] = 1
    combo = 'marker=%s,cha=%d,cbc=%d,etm=%d' % ('y' if marker_present else 'n', len(c['cha']), min(len(c['cbc']), 2), min(len(c['etm']), 2)) + ((',asym=' + c['pattern']) if asym_V is not None else '')
    unknown = c.get('unknown')
    if marker_present:
        counters['expected_advisory'] = 1 if V else 0
        if flagged:
            viol.append(_v('C04/flagged-despite-marker:' + c['role'], 'algorithms carry the Terrapin warning although the strict-kex marker for this role is present', flagged=sorted(flagged), combo=combo))
        if V_adv and adv_names != V_adv:
            viol.append(_v('C04/advisory-wrong:' + c['role'] + (':unknown-shape' if (unknown and (adv_names ^ V) == {unknown}) else ''), 'advisory note does not name exactly the exposed algorithms', got=sorted(adv_names), want=sorted(V_adv), combo=combo))
        if not V_adv and adv:
            viol.append(_v('C04/advisory-spurious:' + c['role'], 'advisory note although nothing is exposed', got=adv[:1], combo=combo))
    else:
        counters['expected_exposed'] = 1 if V else 0
        if flagged != V:
            miss, extra = V - flagged, flagged - V
            k = 'missing' if miss else 'extra'
            which = 'unknown-shape' if (unknown and miss == {unknown} and not extra) else ('cha' if (miss | extra) & set(c['cha']) else 'cbc' if (miss | extra) & set(c['cbc']) else 'etm' if (miss | extra) & set(c['etm']) else 'other')
            viol.append(_v('C04/flagged-%s:%s:%s' % (k, c['role'], which + (':asymmetric-lists' if asym_V is not None else '')), 'the set of algorithms carrying the Terrapin warning differs from the published rule', got=sorted(flagged), want=sorted(V), combo=combo, marker=c['marker']))
        if adv:
            viol.append(_v('C04/advisory-without-marker:' + c['role'], 'advisory note although the marker is absent', combo=combo))
    # the warning sits on the cipher entry of a cipher and on the MAC entry of a MAC (a name listed in both categories is flagged in its own only)
    flagged_pairs = {(cat, n) for (cat, n, lvl, txt) in find if CVE in txt and lvl in ('warn', 'fail')}
    wrong_cat = sorted((cat, n) for (cat, n) in flagged_pairs if (cat == 'mac') != n.endswith('-etm@openssh.com'))
    if c.get('cross'):
        counters['cross_category_cases'] = 1
    if wrong_cat:
        viol.append(_v('C04/flag-in-wrong-category', 'the Terrapin warning is attached to an entry of another category than the one the rule names', entries=wrong_cat, render=c['render']))
    if flagged_cats - {'enc', 'mac'}:
        viol.append(_v('C04/flag-outside-enc-mac', 'a non cipher/MAC algorithm carries the Terrapin warning', cats=sorted(flagged_cats)))
    k_all = script['kex']
    anywhere = set(k_all['enc_cs']) | set(k_all['enc_sc']) | set(k_all['mac_cs']) | set(k_all['mac_sc'])
    # "disabled by the operator" = advertised in neither direction (with asymmetric lists a name present in one direction only is not judged)
    bad_add = [(n, cat) for (n, cat) in recs_add if is_shape(n) and n not in anywhere]
    if bad_add:
        viol.append(_v('C04/recommends-adding-terrapin-shape', 'an algorithm of ChaCha/CBC/ETM shape that is not advertised is recommended for addition', recs=bad_add[:5]))
    return {'violations': viol, 'counters': counters, 'nontrivial': True,
            'sample': {'case': c, 'observed': {'flagged': sorted(flagged), 'advisory': sorted(adv_names), 'status': r.status}}, 'sample_kind': c['kind'] + c['role'] + c['marker']}
