"""C03 - an algorithm's rating depends only on the algorithm, in every view."""
import json
import random

from harness import audit, gen, report, runner

ID = 'C03'
LEVEL = 'exploration'
SHARDS = 16
THREADS = 2
RULE = ('one case = four target names (one per category, drawn without replacement so that the thorough tier covers every database name, every gss-* family with a random base64 suffix, and unknown names) '
        'observed in 8 real executions: alone / first / middle / last position among fresh random neighbours, server and client role, text and JSON, plus one --lookup invocation.  Probes are refused by the peer '
        '(no size attributes) and the Terrapin context is pinned (strict-kex marker present whenever a target has ChaCha/CBC/ETM shape; neighbours never have that shape).  Oracle: per level the multiset of note texts '
        'is identical in every observation; unknown names say "unknown" everywhere and are never shown at the good/info level.  Non-trivial: >= 4 observations of >= 1 target compared; distinct = distinct target sets')
REQUIRED = {'crosscat_names': 20, 'observations': 500, 'targets_compared': 60, 'lookup_views': 15, 'json_views': 30, 'client_views': 30, 'gss_targets': 2, 'unknown_targets': 2}
ASSUMPTIONS = ['measured attributes are controlled, not inferred: host-key and group-exchange probes are refused, the Terrapin context is pinned as described in the rule',
               'the level at which an unknown name is flagged is not compared across views (C15 exempts unknown names); only "says unknown, never good" is required']
MANIFEST = {
    'text': 'Exploration: every database name (thorough) or a seeded quarter (quick) is observed in position/neighbour/role/format contexts and through --lookup by real executions; the notes must be identical as per-level multisets.  Relational, no frozen copy of the database.',
    'note': 'Purely relational oracle (observations of the same name against each other); trusts the report parsers; the scripted peer refuses probes so that no measured attribute varies.',
    'technique': 'metamorphic/relational runtime monitoring: the same algorithm observed across contexts and views of real executions must yield identical notes',
}
MARK_S, MARK_C = 'kex-strict-s-v00@openssh.com', 'kex-strict-c-v00@openssh.com'


def cases(tier, seed):
    rng = random.Random(seed * 23 + 3)
    names = audit.db_names()
    pools = {}
    for cat in ('kex', 'key', 'enc', 'mac'):
        p = [n for n in names[cat] if n not in (MARK_S, MARK_C)]
        rng.shuffle(p)
        pools[cat] = p
    n_cases = max(len(p) for p in pools.values())
    cs = []
    for i in range(n_cases):
        if tier == 'quick' and i % 4 != seed % 4:
            continue
        t = {cat: pools[cat][i % len(pools[cat])] for cat in pools}
        cs.append({'kind': 'targets', 'targets': t, 'seed': rng.randrange(1 << 30)})
    for i in range(3 if tier == 'quick' else 12):
        cs.append({'kind': 'targets', 'targets': {cat: pools[cat][(i * 7) % len(pools[cat])] for cat in pools}, 'unknown_cat': ['kex', 'key', 'enc', 'mac'][i % 4], 'seed': rng.randrange(1 << 30)})
    # unknown names of ChaCha / CBC / ETM shape: they must stay flagged as unknown in every Terrapin context (marker present or absent, exposed or not)
    shaped = [('enc', 'zzaria256-cbc'), ('enc', 'chacha20-poly1305@zz.example'), ('mac', 'zz-hmac-sha3-256-etm@openssh.com'), ('enc', 'zzcamellia-cbc@ssh.com')]
    for i, (cat, name) in enumerate(shaped if tier == 'thorough' else shaped[:3]):
        t = {c_: [n for n in pools[c_] if not gen.is_terrapin_shape(n)][i] for c_ in pools}
        cs.append({'kind': 'targets', 'targets': t, 'unknown_cat': cat, 'unknown_name': name, 'seed': rng.randrange(1 << 30)})
    # table names wrapped in white space (a peer that joins its list with ", "): other names than the table's, i.e. unknown ones, in every view
    wrapped = [('enc', ' aes128-ctr'), ('mac', 'hmac-sha2-256 '), ('kex', '\tcurve25519-sha256'), ('key', ' ssh-ed25519 '), ('enc', ' aes256-gcm@openssh.com'), ('mac', ' hmac-sha2-512-etm@openssh.com')]
    for i, (cat, name) in enumerate(wrapped if tier == 'thorough' else [wrapped[(seed + j) % len(wrapped)] for j in (0, 3)]):
        t = {c_: [n for n in pools[c_] if not gen.is_terrapin_shape(n) and n != name.strip()][i + 9] for c_ in pools}
        cs.append({'kind': 'targets', 'targets': t, 'unknown_cat': cat, 'unknown_name': name, 'seed': rng.randrange(1 << 30)})
    # a Terrapin-sensitive cipher without the strict-kex marker anywhere, and beside it - in every other context - an unknown name that merely looks like the marker: an unrelated neighbour, not part of the documented context
    for i, la in enumerate(['kex-strict-%-v01@openssh.com', 'kex-strict-%-v0@openssh.com', 'kex-strict-%-v00@openssh.com.', 'KEX-STRICT-%-V00@openssh.com'] if tier == 'thorough' else ['kex-strict-%-v01@openssh.com', 'kex-strict-%-v' + '%02d' % (2 + seed % 90) + '@openssh.com']):
        t = {c_: [n for n in pools[c_] if not gen.is_terrapin_shape(n)][i + 5] for c_ in pools}
        t['enc'] = 'chacha20-poly1305@openssh.com'
        cs.append({'kind': 'targets', 'targets': t, 'lookalike': la, 'seed': rng.randrange(1 << 30)})
    # the same names advertised in several categories at once: the rating goes by (category, name), never by the name alone
    for i in range(4 if tier == 'quick' else 24):
        cs.append({'kind': 'crosscat', 'seed': rng.randrange(1 << 30)})
    return cs


def _v(key, what, **d):
    return {'key': key, 'what': what, 'detail': d}


def canon(notes):
    out = {'fail': [], 'warn': [], 'info': []}
    for lvl, txt in notes:
        if txt:
            out[lvl].append(txt)
    return {k: sorted(v) for k, v in out.items()}


def run_crosscat(c):
    rng = random.Random(c['seed'])
    names = audit.db_names()
    shared = []
    for cat in ('enc', 'mac', 'key', 'kex'):
        shared += rng.sample([n for n in names[cat] if not n.endswith('-*') and not gen.is_terrapin_shape(n) and not n.startswith('kex-strict')], 2)
    both = [n for n in names['enc'] if n in names['mac'] and not gen.is_terrapin_shape(n)]
    shared += rng.sample(both, min(2, len(both)))
    rng.shuffle(shared)
    lists = {cat: list(shared) for cat in ('kex', 'key', 'enc', 'mac')}
    lists['kex'] = lists['kex'] + [MARK_S]
    script = {'banner': 'SSH-2.0-OpenSSH_9.%d' % rng.randint(0, 9), 'kex': audit.sym_kex(lists['kex'], lists['key'], lists['enc'], lists['mac']), 'hostkeys': {}, 'hostkey_default': None, 'gex': None}
    rt, _p = audit.audit_server(script, ['-n'])
    rj, _p = audit.audit_server(script, ['-j'])
    viol, counters = [], {'observations': 0, 'json_views': 1, 'targets_compared': 0, 'crosscat_names': 0}
    if rt.status not in (0, 2, 3) or rj.status not in (0, 2, 3):
        viol.append(_v('C03/audit-failed:status%s' % rt.status, 'audit did not complete', out=(rt.out + rj.out)[-300:]))
        return {'violations': viol, 'counters': counters}
    rep = report.parse_text(rt.out)
    doc = json.loads(rj.out)
    for cat in ('kex', 'key', 'enc', 'mac'):
        tnotes = {a.name: canon(a.notes) for a in rep.algs[cat]}
        jnotes = {e['algorithm']: canon([(lvl, t) for lvl in ('fail', 'warn', 'info') for t in (e.get('notes') or {}).get(lvl, [])]) for e in doc.get(cat) or []}
        for n in shared:
            if n not in tnotes or n not in jnotes:
                viol.append(_v('C03/target-missing:crosscat', 'a name listed in several categories is missing from one of them', cat=cat, name=n))
                continue
            counters['observations'] += 2
            counters['crosscat_names'] += 1
            t, j = tnotes[n], jnotes[n]
            t_unknown = any('unknown' in x for x in t['fail'] + t['warn'])
            j_unknown = any('unknown' in x for x in j['fail'] + j['warn'])
            if t_unknown != j_unknown:
                viol.append(_v('C03/crosscat-unknown-flag-differs:' + cat, 'a name is unknown in this category in one view but not in the other', cat=cat, name=n, text=t, json=j))
            elif not t_unknown and t != j:
                viol.append(_v('C03/crosscat-views-disagree:' + cat, 'notes of a name listed in several categories differ between text and JSON for this category', cat=cat, name=n, text=t, json=j))
    counters['targets_compared'] = 1
    seen, uniq = set(), []
    for v in viol:
        if v['key'] not in seen:
            seen.add(v['key'])
            uniq.append(v)
    return {'violations': uniq, 'counters': counters, 'nontrivial': counters['crosscat_names'] > 0, 'sample': {'shared_names': shared, 'observations': counters['observations']}, 'sample_kind': 'crosscat'}


def run_case(c):
    if c.get('kind') == 'crosscat':
        return run_crosscat(c)
    rng = random.Random(c['seed'])
    names = audit.db_names()
    targets = dict(c['targets'])
    fam = None
    if targets['kex'].startswith('gss-') and targets['kex'].endswith('-*'):
        fam = targets['kex']
        targets['kex'] = audit.gss_instance(rng, fam, forced=rng.choice([None, '+', '/']))
    unknown_cat = c.get('unknown_cat')
    if unknown_cat:
        targets[unknown_cat] = c.get('unknown_name') or audit.unknown_name(rng)
    pin_marker = any(gen.is_terrapin_shape(targets[cat]) for cat in ('enc', 'mac')) and not c.get('unknown_name') and not c.get('lookalike')
    exposing = {'enc': ['hmac-sha2-256-etm@openssh.com'], 'mac': ['aes128-cbc']} if c.get('unknown_name') else None
    neigh = {cat: [n for n in names[cat] if not n.endswith('-*') and n != targets[cat] and n != targets[cat].strip() and not gen.is_terrapin_shape(n) and n not in (MARK_S, MARK_C)] for cat in ('kex', 'key', 'enc', 'mac')}
    obs = {cat: [] for cat in targets}   # (context label, canon notes | 'unknown' marker)
    counters = {'observations': 0, 'json_views': 0, 'client_views': 0, 'lookup_views': 0}
    viol = []
    contexts = [('alone', 'server', 'text'), ('first', 'server', 'json'), ('middle', 'client', 'text'), ('last', 'client', 'json'),
                ('first', 'client', 'text'), ('last', 'server', 'text'), ('middle', 'server', 'json'), ('alone', 'client', 'json'), ('middle', 'server', 'verbose'), ('last', 'client', 'batch')]
    for pos, role, fmt in contexts:
        lists = {}
        for cat in targets:
            ns = rng.sample(neigh[cat], 2)
            t = targets[cat]
            lists[cat] = {'alone': [t], 'first': [t] + ns, 'middle': [ns[0], t, ns[1]], 'last': ns + [t]}[pos]
        if exposing:
            # put the partner shape beside the unknown name so that the published rule calls it exposed when the marker is absent
            if unknown_cat == 'enc':
                lists['mac'] = lists['mac'] + exposing['enc']
            else:
                lists['enc'] = lists['enc'] + exposing['mac']
        marker = pin_marker or (rng.random() < .5 if not exposing else contexts.index((pos, role, fmt)) % 2 == 1)
        if c.get('lookalike'):
            marker = False
            if contexts.index((pos, role, fmt)) % 2 == 1:
                lists['kex'] = lists['kex'] + [c['lookalike'].replace('%', 'c' if role == 'client' else 's', 1)]
                counters['marker_lookalike_neighbours'] = counters.get('marker_lookalike_neighbours', 0) + 1
        if marker:
            lists['kex'] = lists['kex'] + [MARK_C if role == 'client' else MARK_S]
        script = {'banner': 'SSH-2.0-OpenSSH_9.%d' % rng.randint(0, 9), 'kex': audit.sym_kex(lists['kex'], lists['key'], lists['enc'], lists['mac']), 'hostkeys': {}, 'hostkey_default': None, 'gex': None}
        args = {'json': ['-j'], 'text': ['-n'], 'verbose': ['-n', '-v'], 'batch': ['-n', '-b']}[fmt]
        if role == 'client':
            r, p = audit.audit_client(script, args)
            if p.count('connected') == 0:
                return {'verdict': 'inconclusive', 'why': 'client peer could not connect'}
            counters['client_views'] += 1
        else:
            r, p = audit.audit_server(script, args)
        if r.status not in (0, 2, 3):
            viol.append(_v('C03/audit-failed:status%s' % r.status, 'audit did not complete', out=r.out[-400:], lists=lists))
            continue
        label = '%s/%s/%s' % (pos, role, fmt)
        if fmt == 'json':
            counters['json_views'] += 1
            try:
                doc = json.loads(r.out)
            except ValueError:
                viol.append(_v('C03/json-unparsable', 'not one JSON document', out=r.out[:200]))
                continue
            for cat in targets:
                ent = [e for e in doc.get(cat) or [] if e['algorithm'] == targets[cat]]
                if not ent:
                    viol.append(_v('C03/target-missing:json', 'target name absent from JSON', cat=cat, name=targets[cat]))
                    continue
                notes = [(lvl, t) for lvl in ('fail', 'warn', 'info') for t in (ent[0].get('notes') or {}).get(lvl, [])]
                obs[cat].append((label, canon(notes)))
                counters['observations'] += 1
        else:
            rep = report.parse_text(r.out, verbose=(fmt == 'verbose'))
            for cat in targets:
                ent = [a for a in rep.algs[cat] if a.name in (targets[cat], targets[cat].strip())]   # (the text parser drops surrounding white space; the bare name is not among the neighbours)
                if not ent:
                    viol.append(_v('C03/target-missing:text', 'target name absent from text report', cat=cat, name=targets[cat]))
                    continue
                obs[cat].append((label, canon(ent[0].notes)))
                counters['observations'] += 1
    # --lookup view
    r = runner.run_cli(['-n', '--lookup', ','.join(targets[cat] for cat in ('kex', 'key', 'enc', 'mac'))], timeout=30)
    counters['lookup_views'] += 1
    rep = report.parse_text(r.out)
    unknown_section = r.out.split('# unknown algorithms')[1].split('#')[0] if '# unknown algorithms' in r.out else ''
    for cat in targets:
        ent = [a for a in rep.algs[cat] if a.name in (targets[cat], targets[cat].strip())]
        if ent and c.get('lookalike') and cat == 'enc':
            pass   # --lookup has no peer and so no Terrapin context; the audits here deliberately run without the marker
        elif ent:
            obs[cat].append(('lookup', canon(ent[0].notes)))
            counters['observations'] += 1
        elif targets[cat].strip() in unknown_section.split():
            obs[cat].append(('lookup', {'fail': ['<listed under unknown algorithms>'], 'warn': [], 'info': []}))
            counters['observations'] += 1
        else:
            viol.append(_v('C03/target-missing:lookup', '--lookup printed nothing for the name', cat=cat, name=targets[cat], out=r.out[-300:]))
    # ---------------------------------------------------------------- oracle
    compared = 0
    for cat in targets:
        o = obs[cat]
        if len(o) < 4:
            continue
        compared += 1
        is_unknown = (cat == unknown_cat)
        is_gss = (cat == 'kex' and fam is not None)
        if is_unknown:
            counters['unknown_targets'] = counters.get('unknown_targets', 0) + 1
            for label, n in o:
                texts = n['fail'] + n['warn'] + n['info']
                if not any('unknown' in t for t in texts) or (n['info'] and not n['fail'] and not n['warn']):
                    viol.append(_v('C03/unknown-not-flagged:' + label.split('/')[-1], 'an unknown name is not flagged as unknown (or shown as good)', name=targets[cat], view=label, notes=n))
            continue
        if is_gss:
            counters['gss_targets'] = counters.get('gss_targets', 0) + 1
        ref_label, ref = o[0]
        for label, n in o[1:]:
            if n != ref:
                kind = label.split('/')[-1] if label != 'lookup' else 'lookup'
                what = 'gss-instance' if is_gss else 'db-name'
                dim = 'view' if kind in ('json', 'lookup') and any(l2.endswith('/text') and n2 == ref for l2, n2 in o) and ref_label.endswith('/text') else 'context'
                # if all text observations agree with each other and all json observations agree with each other the difference is between views
                texts_ = [n2 for l2, n2 in o if l2.endswith('/text')]
                jsons_ = [n2 for l2, n2 in o if l2.endswith('/json')]
                if all(x == texts_[0] for x in texts_) and all(x == jsons_[0] for x in jsons_) and kind in ('json', 'lookup'):
                    key = 'C03/views-disagree:%s:%s' % (kind, what)
                else:
                    key = 'C03/context-dependent:%s:%s' % (cat, what)
                viol.append(_v(key, 'notes of the same algorithm differ between observations', cat=cat, name=targets[cat], a=[ref_label, ref], b=[label, n]))
    counters['targets_compared'] = compared
    seen, uniq = set(), []
    for v in viol:
        if v['key'] not in seen:
            seen.add(v['key'])
            uniq.append(v)
    return {'violations': uniq, 'counters': counters, 'nontrivial': compared > 0,
            'sample': {'targets': targets, 'observations': {cat: [[l, n] for l, n in obs[cat][:3]] for cat in obs}}, 'sample_kind': 'unknown' if unknown_cat else 'gss' if fam else 'db'}
