"""C05 - a policy made from a target passes on that target and fails on any drift."""
import copy
import json
import os
import random

from harness import audit, gen, report, runner
from props import c17

ID = 'C05'
LEVEL = 'exploration'
SHARDS = 16
THREADS = 2
RULE = ('one case = one generated peer (name lists over database names including names with =, +, /, @ such as gss-* and ecdh-sha2-<base64>== instantiations; RSA host keys 1024..8192, RSA and Ed25519 host certificates with RSA / Ed25519 CAs; '
        'group-exchange moduli 2048..8192): the real CLI writes a policy with -M, the file is loaded and evaluated with -P against the same peer (must pass with no errors) and against every single-attribute perturbation of it '
        '(insert / delete / swap-adjacent one name in each of kex, host keys, ciphers, MACs; other host-key size, CA size, CA type, modulus size; quick: 8 sampled perturbations per peer, thorough: all positions), which must fail naming the field; '
        'plus every built-in policy against a peer synthesised exactly from it (client policies through -c).  Non-trivial: the policy file was written and at least one -P verdict compared; distinct = distinct (peer, perturbation)')
REQUIRED = {'client_roundtrips': 4, 'multi_target_verdicts': 8, 'policies_made': 15, 'same_peer_passes': 15, 'perturbations_checked': 100, 'builtin_policies_checked': 40, 'names_with_equals': 3, 'size_perturbations': 10, 'ca_perturbations': 4}
ASSUMPTIONS = ['the mismatched field is recognised by keyword class (exchange / host key / cipher / mac / size / CA / modulus), case-insensitively, so rewording does not alarm',
               'perturbations that would empty a list are skipped (RFC 4253 requires non-empty lists)']
MANIFEST = {
    'text': 'Exploration: make-policy / policy-audit round trips through the real CLI and the real file system for generated peers, with all single-attribute perturbations of each peer, plus all built-in policies against peers synthesised from them.',
    'note': 'Ground truth is the scripted peer and the perturbation applied to it; trusts report parsers (policy text and JSON).',
    'technique': 'metamorphic runtime monitoring through the CLI: peer P vs perturbed peer P\' under the policy made from P',
}
GEX256 = 'diffie-hellman-group-exchange-sha256'
EQ_NAMES = ['ecdh-sha2-5pPrSUQtIaTjUSt5VZNBjg==', 'ecdh-sha2-qcFQaMAMGhTziMT0z+Tuzw==', 'ecdh-sha2-h/SsxnLCtRBh7I9ATyeB3A==']


def cases(tier, seed):
    from ssh_audit.builtin_policies import BUILTIN_POLICIES
    rng = random.Random(seed * 53 + 5)
    cs = []
    n = 24 if tier == 'quick' else 400
    for i in range(n):
        cs.append({'kind': 'roundtrip', 'seed': rng.randrange(1 << 30), 'profile': ['plain', 'equals', 'cert', 'gex', 'rsa', 'cert', 'gss', 'cert'][i % 8], 'all': tier == 'thorough', 'json': i % 2 == 0, 'i': i})
    for i in range(6 if tier == 'quick' else 60):
        cs.append({'kind': 'client', 'seed': rng.randrange(1 << 30), 'sym': i % 2 == 0, 'json': i % 3 == 0})
    for i in range(4 if tier == 'quick' else 40):
        cs.append({'kind': 'multi', 'seed': rng.randrange(1 << 30), 'profile': ['plain', 'cert', 'rsa', 'equals'][i % 4], 'threads': [1, 3][i % 2], 'json': i % 2 == 0})
    for name in BUILTIN_POLICIES:
        styles = ['strict'] if tier == 'quick' else ['strict', 'roundup', 'largest']
        for st in styles:
            cs.append({'kind': 'builtin', 'policy': name, 'style': st})
    return cs


def _v(key, what, **d):
    return {'key': key, 'what': what, 'detail': d}


def make_peer(c):
    rng = random.Random(c['seed'])
    names = audit.db_names()
    prof = c['profile']
    k = gen.random_kex(rng, names, {'db': 1}, (2, 7))
    # host keys the peer can actually present
    keys = rng.sample(['ssh-ed25519', 'ssh-rsa', 'rsa-sha2-256', 'rsa-sha2-512', 'ecdsa-sha2-nistp256'], rng.randint(1, 3))
    hk = {'ssh-ed25519': {'type': 'ed25519'}, 'ecdsa-sha2-nistp256': {'type': 'ecdsa', 'bits': 256}}
    rsa_bits = rng.choice([1024, 2048, 3072, 4096, 8192])
    for t in ('ssh-rsa', 'rsa-sha2-256', 'rsa-sha2-512'):
        hk[t] = {'type': 'rsa', 'bits': rsa_bits}
    gex = None
    if prof == 'equals':
        k['kex'] = k['kex'] + rng.sample(EQ_NAMES, 2) + [audit.gss_instance(rng, 'gss-group14-sha256-*', forced='+/')]
        # ... and names with '#' (RFC 4251 allows it in a name; in a policy file it starts a comment only at the start of a line), in the middle and at the end of the list
        k['kex'] = k['kex'][:1] + ['kex#1@example.com'] + k['kex'][1:] + ['#kex@example.org']
        # '=' in cipher and MAC names too, in every shape (digits after it, several of them, at either end), first / in the middle / last in the list
        for cat, pool in (('enc', ['aes256-mode=7', 'cipher=x=y@example.com', 'c=@example.org']), ('mac', ['hmac-sha2-256-trunc=96', 'mac=a=12', '=mac@example.com'])):
            j = c.get('i', rng.randrange(72)) // 8     # position and shape cycle with the case index: every position is met in every run
            name = pool[(j // 3) % 3]
            lst = list(k[cat + '_sc'])
            lst.insert([0, len(lst) // 2, len(lst)][(j + 2) % 3], name)
            k[cat + '_sc'] = lst
            k[cat + '_cs'] = list(lst)
    if prof == 'gss':
        k['kex'] = [audit.gss_instance(rng, f) for f in rng.sample([x for x in names['kex'] if x.startswith('gss-')], 2)] + k['kex']
    if prof == 'cert':
        ct = rng.choice(['ssh-rsa-cert-v01@openssh.com', 'ssh-ed25519-cert-v01@openssh.com'])
        keys = [ct] + keys[:1]
        ca = rng.choice([{'type': 'rsa', 'bits': rng.choice([2048, 3072, 4096])}, {'type': 'rsa', 'bits': rng.choice([1024, 4096, 8192])}, {'type': 'ed25519'}])
        hk[ct] = {'type': 'rsa-cert' if 'rsa' in ct else 'ed25519-cert', 'bits': rng.choice([2048, 3072, 4096]), 'ca': ca}
    if prof == 'rsa' and not any(t in keys for t in ('ssh-rsa', 'rsa-sha2-256', 'rsa-sha2-512')):
        keys.append('rsa-sha2-512')
    if prof == 'gex':
        k['kex'] = k['kex'] + [GEX256]
        gex = {'sizes': [rng.choice([2048, 3072, 4096, 8192])], 'style': rng.choice(['strict', 'openssh'])}   # 'openssh': real OpenSSH behaviour (2048-bit fallback for requests nothing on file fits, measured through the follow-up probe)
    elif GEX256 in k['kex'] or 'diffie-hellman-group-exchange-sha1' in k['kex']:
        gex = {'sizes': [4096], 'style': 'strict'}
    if not any(x in gen.PROBE_KEX for x in k['kex']):
        k['kex'].append('curve25519-sha256')
    k['key'] = keys
    # every third peer sends SSH_MSG_DEBUG messages (allowed at any time) in front of its key-exchange replies and groups: the sizes behind them are covered by the policy all the same
    chatter = [0, 2, 3, 5][(c.get('i', 0) // 3) % 4] if c.get('i', 0) % 3 == 1 else 0
    return {'banner': 'SSH-2.0-OpenSSH_9.%d' % rng.randint(0, 9), 'kex': k, 'hostkeys': hk, 'gex': gex, 'reply_debug': chatter}


def perturbations(script, rng, everything):
    """[(class keyword, description, perturbed script)]"""
    out = []
    names = audit.db_names()
    k = script['kex']
    fields = (('kex', 'exchange', ['kex']), ('key', 'host key', ['key']), ('enc', 'cipher', ['enc_sc', 'enc_cs']), ('mac', 'mac', ['mac_sc', 'mac_cs']))
    for cat, cls, flds in fields:
        cur = list(k[flds[0]])
        positions = range(len(cur) + 1) if everything else [rng.randrange(len(cur) + 1)]
        for pos in positions:
            new = rng.choice([n for n in names[cat] if n not in cur and not n.endswith('-*')])
            if cat == 'key':
                new = rng.choice([n for n in ('ssh-dss', 'ecdsa-sha2-nistp384', 'ssh-ed448', 'sk-ssh-ed25519@openssh.com') if n not in cur])
            v = cur[:pos] + [new] + cur[pos:]
            out.append((cls, 'insert %s at %d in %s' % (new, pos, cat), flds, v))
        if len(cur) > 1:
            for pos in (range(len(cur)) if everything else [rng.randrange(len(cur))]):
                v = cur[:pos] + cur[pos + 1:]
                if cat == 'kex' and not any(x in gen.PROBE_KEX for x in v):
                    continue
                out.append((cls, 'delete %s from %s' % (cur[pos], cat), flds, v))
            for pos in (range(len(cur) - 1) if everything else [rng.randrange(len(cur) - 1)]):
                if cur[pos] == cur[pos + 1]:
                    continue
                v = list(cur)
                v[pos], v[pos + 1] = v[pos + 1], v[pos]
                out.append((cls, 'swap %d/%d in %s' % (pos, pos + 1, cat), flds, v))
    res = []
    for cls, desc, flds, v in out:
        s2 = copy.deepcopy(script)
        for f in flds:
            s2['kex'][f] = list(v)
        res.append((cls, desc, s2))
    # sizes
    keys = k['key']
    if any(t in keys for t in ('ssh-rsa', 'rsa-sha2-256', 'rsa-sha2-512')):
        cur = script['hostkeys']['ssh-rsa']['bits']
        for nb in ([cur + 1024, max(cur - 1024, 512)] if everything else [cur + 1024]):
            if nb == cur:
                continue
            s2 = copy.deepcopy(script)
            for t in ('ssh-rsa', 'rsa-sha2-256', 'rsa-sha2-512'):
                s2['hostkeys'][t]['bits'] = nb
            res.append(('size', 'rsa host key %d -> %d bits' % (cur, nb), s2))
        s2 = copy.deepcopy(script)
        for t in ('ssh-rsa', 'rsa-sha2-256', 'rsa-sha2-512'):
            s2['hostkeys'][t]['bits'] = cur - 16
        res.append(('size', 'rsa host key %d -> %d bits (two bytes: the tool measures key lengths in bytes and drops an odd byte as the sign byte of the mpint)' % (cur, cur - 16), s2))
    for ct in [t for t in keys if '-cert-' in t]:
        spec = script['hostkeys'][ct]
        if spec['type'] == 'rsa-cert':
            s2 = copy.deepcopy(script)
            s2['hostkeys'][ct]['bits'] = spec['bits'] + 1024
            res.append(('size', 'certificate host key %d -> %d bits' % (spec['bits'], spec['bits'] + 1024), s2))
        s2 = copy.deepcopy(script)
        if spec['ca']['type'] == 'rsa':
            s2['hostkeys'][ct]['ca'] = {'type': 'rsa', 'bits': spec['ca']['bits'] + 1024}
            res.append(('ca', 'CA size %d -> %d' % (spec['ca']['bits'], spec['ca']['bits'] + 1024), s2))
            s4 = copy.deepcopy(script)
            s4['hostkeys'][ct]['ca'] = {'type': 'rsa', 'bits': spec['ca']['bits'] - 16}
            res.append(('ca', 'CA size %d -> %d (two bytes)' % (spec['ca']['bits'], spec['ca']['bits'] - 16), s4))
            s3 = copy.deepcopy(script)
            s3['hostkeys'][ct]['ca'] = {'type': 'ed25519'}
            res.append(('ca', 'CA type rsa -> ed25519', s3))
        else:
            s2['hostkeys'][ct]['ca'] = {'type': 'rsa', 'bits': 4096}
            res.append(('ca', 'CA type ed25519 -> rsa', s2))
    if script.get('gex') and GEX256 in k['kex']:
        cur = script['gex']['sizes'][0]
        nb = 3072 if cur != 3072 else 4096
        s2 = copy.deepcopy(script)
        s2['gex'] = {'sizes': [nb], 'style': script['gex'].get('style', 'strict')}
        res.append(('modulus', 'gex modulus %d -> %d' % (cur, nb), s2))
        # the smallest drift there is: a group one bit shorter (handed out by a round-up server, which is how a non-standard length gets measured at all)
        s3 = copy.deepcopy(script)
        s3['gex'] = {'sizes': [cur - 1], 'style': 'roundup'}
        res.append(('modulus', 'gex modulus %d -> %d (one bit)' % (cur, cur - 1), s3))
    return res


def verdict_of(r, as_json):
    if as_json:
        try:
            doc = json.loads(r.out)
            return ('passed' if doc['passed'] else 'failed'), [e['mismatched_field'] for e in doc['errors']]
        except (ValueError, KeyError, TypeError):
            return None, []
    pt = report.parse_policy_text(r.out)
    return pt['result'], pt['errors']


def run_roundtrip(c):
    rng = random.Random(c['seed'] + 1)
    script = make_peer(c)
    viol, counters = [], {}
    d = runner.scratch_dir('c05')
    try:
        pf = os.path.join(d, 'made.txt')
        r, p = audit.audit_server(script, ['-M', pf], cwd=d)
        has_eq = any('=' in n for n in script['kex']['kex'])
        counters['names_with_equals'] = 1 if has_eq else 0
        if r.status != 0 or 'Traceback' in r.out + r.err or not os.path.exists(pf):
            viol.append(_v('C05/make-policy-failed:status%s' % r.status, '-M did not write a policy file', out=(r.out + r.err)[-400:]))
            return viol, counters
        counters['policies_made'] = 1
        fmt = ['-j'] if c['json'] else ['-n']
        r2, p2 = audit.audit_server(script, ['-P', pf] + fmt, cwd=d)
        v, errs = verdict_of(r2, c['json'])
        counters['same_peer_passes'] = 1
        if r2.status != 0 or v != 'passed' or errs:
            why = 'unloadable' if 'Error while loading policy' in r2.out else 'errors'
            viol.append(_v('C05/own-policy-does-not-pass:%s:%s' % (why, c['profile'] if why == 'unloadable' else (errs[0].split('(')[0].strip() if errs else 'status%s' % r2.status)),
                           'the policy made from a peer does not pass against the same peer', status=r2.status, verdict=v, errors=errs, out=r2.out[-400:], policy=open(pf).read()[-700:]))
            return viol, counters
        perts = perturbations(script, rng, c['all'])
        # a size can only drift detectably if the policy covers it: the tool records a modulus / key size only when its probes could measure one (e.g. an 8192-bit-only moduli file is never measured)
        made = open(pf).read()
        covered_dh = 'dh_modulus_sizes' in made and GEX256 in made.split('dh_modulus_sizes', 1)[1].split('\n', 1)[0]
        # ... which is decided by the C12 model of the probe sequence (what the server hands out), not by what this tree happened to write: a measurable modulus missing from the made policy shows up below as an undetected drift
        from props import c12
        measurable_dh = bool(script.get('gex')) and GEX256 in script['kex']['kex'] and c12.model(script['gex'], 'openssh')[0] is not None
        if measurable_dh:
            counters['measurable_modulus_peers'] = 1
        perts = [x for x in perts if not (x[0] == 'modulus' and not (covered_dh or measurable_dh))]
        can_probe = any(x in gen.PROBE_KEX for x in script['kex']['kex'])
        perts = [x for x in perts if not (x[0] in ('size', 'ca') and 'host_key_sizes' not in made and not can_probe)]
        if not c['all']:
            sizes = [x for x in perts if x[0] in ('size', 'ca', 'modulus')]
            lists = [x for x in perts if x[0] not in ('size', 'ca', 'modulus')]
            perts = rng.sample(lists, min(6, len(lists))) + sizes   # size / CA / modulus perturbations are few: always all of them
        for cls, desc, s2 in perts:
            r3, p3 = audit.audit_server(s2, ['-P', pf] + fmt, cwd=d)
            v, errs = verdict_of(r3, c['json'])
            counters['perturbations_checked'] = counters.get('perturbations_checked', 0) + 1
            if cls in ('size', 'ca', 'modulus'):
                counters['size_perturbations'] = counters.get('size_perturbations', 0) + 1
            if cls == 'ca':
                counters['ca_perturbations'] = counters.get('ca_perturbations', 0) + 1
            if r3.status != 3 or v != 'failed':
                viol.append(_v('C05/drift-not-detected:%s:%s' % (cls, desc.split(' ')[0]), 'a peer differing in one covered attribute passes the policy made from the original', change=desc, status=r3.status, verdict=v, out=r3.out[-300:]))
                continue
            kw = {'exchange': ['exchange'], 'host key': ['host key'], 'cipher': ['cipher'], 'mac': ['mac'], 'size': ['size'], 'ca': ['ca '], 'modulus': ['modulus']}[cls]
            if not any(any(w in e.lower() + ' ' for w in kw) for e in errs):
                viol.append(_v('C05/drift-misattributed:%s' % cls, 'the policy fails but no error names the changed field', change=desc, errors=errs))
    finally:
        runner.cleanup(d)
    return viol, counters


def run_multi(c):
    """The policy made from P evaluated in one -T run against drifted copies of P and P itself: P passes with no errors, whatever was evaluated before it."""
    from harness import multi
    rng = random.Random(c['seed'] + 7)
    script = make_peer(c)
    viol, counters = [], {}
    d = runner.scratch_dir('c05m')
    targets = []
    try:
        pf = os.path.join(d, 'made.txt')
        r, p = audit.audit_server(script, ['-M', pf], cwd=d)
        if r.status != 0 or not os.path.exists(pf):
            return None, {'why': 'make-policy failed in multi case'}
        counters['policies_made'] = 1
        perts = [x for x in perturbations(script, rng, False) if x[0] not in ('size', 'ca', 'modulus')][:3]
        order = [('drift:' + cls, s2) for cls, _d, s2 in perts] + [('same', script)]
        if c['seed'] % 2:
            order = order[:1] + [('same', script)] + order[1:] + [('same', script)]
        targets = [multi.Target(nm, sc) for nm, sc in order]
        res = multi.run_multi(targets, c['threads'], 'json' if c['json'] else 'text', extra=['-P', pf], timeout=150)
        for t in targets:
            if c['json']:
                docs = (res.get('docs') or {}).get(t.spec) or (res.get('docs') or {}).get('127.0.0.1:%d' % t.peer.port) or []
                if not docs:
                    viol.append(_v('C05/multi-target-entry-missing', 'no JSON entry for a target of a policy run', target=t.name, err=res.get('json_error')))
                    continue
                v, errs = ('passed' if docs[0].get('passed') else 'failed'), [e['mismatched_field'] for e in docs[0].get('errors') or []]
            else:
                blocks = (res.get('blocks') or {}).get(t.spec) or []
                if not blocks:
                    viol.append(_v('C05/multi-target-entry-missing', 'no block for a target of a policy run', target=t.name))
                    continue
                pt = report.parse_policy_text(blocks[0])
                v, errs = pt['result'], pt['errors']
            counters['multi_target_verdicts'] = counters.get('multi_target_verdicts', 0) + 1
            if t.name == 'same':
                counters['same_peer_passes'] = counters.get('same_peer_passes', 0) + 1
                if v != 'passed' or errs:
                    viol.append(_v('C05/own-policy-does-not-pass:multi-target', 'in a multi-target policy run the peer the policy was made from does not pass with an empty error list', verdict=v, errors=errs, order=[x.name for x in targets], threads=c['threads']))
            else:
                counters['perturbations_checked'] = counters.get('perturbations_checked', 0) + 1
                cls = t.name.split(':', 1)[1]
                kw = {'exchange': 'exchange', 'host key': 'host key', 'cipher': 'cipher', 'mac': 'mac'}[cls]
                if v != 'failed':
                    viol.append(_v('C05/drift-not-detected:multi-target:' + cls, 'a drifted peer passes in a multi-target policy run', order=[x.name for x in targets]))
                elif [e for e in errs if kw not in e.lower()]:
                    viol.append(_v('C05/drift-misattributed:multi-target', 'a drifted peer is reported with errors for fields it does not differ in', target=t.name, errors=errs, order=[x.name for x in targets]))
    finally:
        for t in targets:
            t.stop()
        runner.cleanup(d)
    return viol, counters


def run_client(c):
    """-c -M then -c -P against the same scripted client (identical or different lists per direction), then against a drifted client."""
    rng = random.Random(c['seed'])
    names = audit.db_names()
    k = gen.random_kex(rng, names, {'db': 1}, (2, 6))
    if not c['sym']:
        k['enc_cs'] = gen.pick_names(rng, 'enc', names, rng.randint(1, 5), {'db': 1})
        k['mac_cs'] = gen.pick_names(rng, 'mac', names, rng.randint(1, 5), {'db': 1})
        k['comp_cs'] = ['zlib'] if k['comp_sc'] != ['zlib'] else ['none']
    script = {'banner': 'SSH-2.0-OpenSSH_9.%d' % rng.randint(0, 9), 'kex': k}
    viol, counters = [], {'client_roundtrips': 0}
    d = runner.scratch_dir('c05c')
    try:
        pf = os.path.join(d, 'client-policy.txt')
        r, p = audit.audit_client(script, ['-M', pf], cwd=d)
        if p.count('connected') == 0:
            return None, {'why': 'client peer could not connect'}
        if r.status != 0 or not os.path.exists(pf):
            viol.append(_v('C05/make-policy-failed:client:status%s' % r.status, '-c -M did not write a policy file', out=(r.out + r.err)[-300:]))
            return viol, counters
        counters['policies_made'] = 1
        fmt = ['-j'] if c['json'] else ['-n']
        r2, p2 = audit.audit_client(script, ['-P', pf] + fmt, cwd=d)
        if p2.count('connected') == 0:
            return None, {'why': 'client peer could not connect'}
        v, errs = verdict_of(r2, c['json'])
        counters['same_peer_passes'] = 1
        counters['client_roundtrips'] = 1
        if r2.status != 0 or v != 'passed' or errs:
            viol.append(_v('C05/own-policy-does-not-pass:client:%s' % ('symmetric' if c['sym'] else 'asymmetric-lists'), 'the policy made from a client does not pass against the same client', status=r2.status, verdict=v, errors=errs, out=r2.out[-300:]))
            return viol, counters
        # drift: one more cipher in the lists the report shows
        s3 = copy.deepcopy(script)
        extra = rng.choice([n for n in names['enc'] if n not in k['enc_sc'] and not n.endswith('-*')])
        s3['kex']['enc_sc'] = k['enc_sc'] + [extra]
        if c['sym']:
            s3['kex']['enc_cs'] = k['enc_cs'] + [extra]
        r3, p3 = audit.audit_client(s3, ['-P', pf] + fmt, cwd=d)
        if p3.count('connected') == 0:
            return None, {'why': 'client peer could not connect'}
        v, errs = verdict_of(r3, c['json'])
        counters['perturbations_checked'] = 1
        if r3.status != 3 or v != 'failed':
            viol.append(_v('C05/drift-not-detected:client:cipher', 'a client with one more cipher passes the policy made from the original client', status=r3.status, verdict=v))
        elif [e for e in errs if 'cipher' not in e.lower()]:
            viol.append(_v('C05/drift-misattributed:client', 'fields that did not change are reported as mismatched', errors=errs))
    finally:
        runner.cleanup(d)
    return viol, counters


def run_builtin(c):
    from ssh_audit.builtin_policies import BUILTIN_POLICIES
    pol = BUILTIN_POLICIES[c['policy']]
    client = not pol['server_policy']
    script = c17.synth_script(pol, client)
    if script.get('gex'):
        script['gex']['style'] = c['style']
    if client:
        r, p = audit.audit_client(script, ['-n', '-P', c['policy']])
        if p.count('connected') == 0:
            return None, {'why': 'client peer could not connect'}
    else:
        r, p = audit.audit_server(script, ['-n', '-P', c['policy']])
    pt = report.parse_policy_text(r.out)
    viol = []
    if r.status != 0 or pt['result'] != 'passed':
        viol.append(_v('C05/builtin-policy-fails-on-own-configuration:' + c['policy'].split(' (')[0], 'a peer configured exactly as the built-in policy lists does not pass it', policy=c['policy'], status=r.status, errors=pt['errors'], out=r.out[-500:]))
    return viol, {'builtin_policies_checked': 1}


def run_case(c):
    viol, counters = {'roundtrip': run_roundtrip, 'builtin': run_builtin, 'multi': run_multi, 'client': run_client}[c['kind']](c)
    if viol is None:
        return {'verdict': 'inconclusive', 'why': counters.get('why')}
    seen, uniq = set(), []
    for v in viol:
        if v['key'] not in seen:
            seen.add(v['key'])
            uniq.append(v)
    return {'violations': uniq, 'counters': counters, 'nontrivial': counters.get('same_peer_passes', 0) + counters.get('builtin_policies_checked', 0) > 0,
            'sample': {'case': c, 'observed': counters}, 'sample_kind': c['kind'] + str(c.get('profile', ''))}
