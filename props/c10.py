"""C10 - wire encoding/decoding are exact inverses; emitted packets are well framed."""
import random
import socket
import struct
import threading

from harness import wire, audit

ID = 'C10'
LEVEL = 'exploration'
SHARDS = 16
RULE = ('cases are batches of values pushed through the real WriteBuf/ReadBuf/SSH2_Kex/SSH1_PublicKeyMessage/SSH_Socket code: dense integer windows, '
        '+-2^k+d neighbourhoods, 32-bit word patterns, random big integers, name-lists/strings/whole messages, payload lengths through a real loopback '
        'socket, and real audits whose packets the peer decodes strictly; a batch is non-trivial when it evaluated >= 1 value and every oracle '
        '(independent RFC 4251 encoder, decode(encode(v)) == v, re-encode == bytes, RFC 4253 s6 framing, own reader read-back) was reached; '
        'distinct = distinct batch specifications')
REQUIRED = {'ssh1_packets_with_nonzero_padding': 5, 'e2e_connections_reset_by_peer': 3, 'ssh1_packets_length_multiple_of_8': 3, 'mpint2_values': 1000, 'mpint1_values': 500, 'packets_framed': 100, 'packets_readback': 100, 'messages': 50, 'e2e_packets': 10}
ASSUMPTIONS = ['harness/wire.py is a correct RFC 4251/4253 codec (self-tested against RFC examples and int.to_bytes)',
               'SSH-1 multiple precision integers carry no sign: mpint1 is checked on non-negative integers only']
MANIFEST = {
    'text': 'Exploration: the real buffer classes, message classes and packet writer/reader are driven over dense and boundary integer domains, all payload lengths 0..4096 through a real loopback socket and real audits, and compared with an independent RFC 4251/4253 codec; holds on the values enumerated, not for all integers.',
    'note': 'Trusts harness/wire.py (independent codec, self-tested on RFC examples), CPython int.to_bytes/zlib.crc32; SSH-1 mpints checked for non-negative values only (the format has no sign).',
    'technique': 'runtime round-trip and differential monitoring of the real codec against an independent reference codec; boundary framing monitor on loopback sockets',
}
WORDS = [0, 1, 0x7fffffff, 0x80000000, 0xffffffff]


def cases(tier, seed):
    rng = random.Random(seed * 7919 + 10)
    cs = []
    for lo in range(-(1 << 17), 1 << 17, 1 << 13):
        cs.append({'kind': 'dense', 'lo': lo, 'hi': lo + (1 << 13)})
    step = 7 if tier == 'quick' else 1
    ks = list(range(1, 8193, step))
    if tier == 'quick':
        ks = sorted(set(ks + [31, 32, 33, 63, 64, 65, 127, 128, 255, 256, 1023, 1024, 2047, 2048, 4095, 4096, 8191, 8192]))
    chunk = 24 if tier == 'quick' else 16
    for i in range(0, len(ks), chunk):
        cs.append({'kind': 'pow2', 'ks': ks[i:i + chunk], 'd': 300 if tier == 'thorough' else 40})
    maxw = 5 if tier == 'quick' else 7
    for nw in range(1, maxw + 1):
        for lead in range(len(WORDS) + 1):
            cs.append({'kind': 'words', 'nwords': nw, 'lead': lead, 'seed': rng.randrange(1 << 30), 'extra': 0})
    for nw in range(maxw + 1, 11):
        cs.append({'kind': 'words', 'nwords': nw, 'lead': -1, 'seed': rng.randrange(1 << 30), 'extra': 3000 if tier == 'quick' else 30000})
    for tail in (1, 2, 3):
        cs.append({'kind': 'words', 'nwords': 3, 'lead': -1, 'seed': rng.randrange(1 << 30), 'extra': 2000, 'tail': tail})
    for i in range(16 if tier == 'quick' else 160):
        cs.append({'kind': 'random', 'seed': rng.randrange(1 << 30), 'n': 1500})
    fr = 128 if tier == 'quick' else 64
    for lo in range(0, 4097, fr):
        cs.append({'kind': 'framing', 'lo': lo, 'hi': min(4097, lo + fr)})
    for i in range(16 if tier == 'quick' else 100):
        cs.append({'kind': 'messages', 'seed': rng.randrange(1 << 30), 'n': 130 if tier == 'quick' else 500})
    # beyond the 0..4096 window: a payload larger than 64 KiB (the tool's probe KEXINIT echoes the peer's lists, whatever their size) and small packets on the same socket right after it
    for i, lens in enumerate([[100, 70000, 37, 41, 65537, 8, 65536, 5, 131072, 1, 2], [66000, 12, 66000, 12]] if tier == 'quick' else [[100, 70000, 37, 41, 65537, 8, 65536, 5, 131072, 1, 2], [66000, 12, 66000, 12], [65535, 9, 65536, 9, 65537, 9, 65538, 9], [200000, 37, 3, 262144, 20]]):
        cs.append({'kind': 'framing', 'lo': 7000 + i, 'hi': 7000 + i, 'lens': lens})
    cs.append({'kind': 'ssh1crc', 'seed': rng.randrange(1 << 30), 'n': 400})
    for i in range(12 if tier == 'quick' else 120):
        cs.append({'kind': 'e2e', 'seed': rng.randrange(1 << 30)})
    for i in range(3 if tier == 'quick' else 20):
        cs.append({'kind': 'e2e', 'seed': rng.randrange(1 << 30), 'reset': True})
    return cs


def _v(key, what, **detail):
    return {'key': key, 'what': what, 'detail': detail}


def check_mpint2(v, viol):
    from ssh_audit.writebuf import WriteBuf
    from ssh_audit.readbuf import ReadBuf
    ref = wire.mpint(v)
    try:
        enc = WriteBuf().write_mpint2(v).write_flush()
    except Exception as e:
        viol.append(_v('C10/mpint2-encode-raises:' + type(e).__name__, 'write_mpint2 raised', value=hex(v)[:90]))
        return
    if enc != ref:
        viol.append(_v('C10/mpint2-encode-differs:' + ('neg' if v < 0 else 'pos'), 'write_mpint2 differs from RFC 4251 encoding', value=hex(v)[:90], got=enc.hex()[:80], want=ref.hex()[:80]))
    try:
        dec = ReadBuf(ref).read_mpint2()
    except Exception as e:
        viol.append(_v('C10/mpint2-decode-raises:' + type(e).__name__, 'read_mpint2 raised', value=hex(v)[:90]))
        return
    if dec != v:
        viol.append(_v('C10/mpint2-decode-wrong:' + ('neg' if v < 0 else 'pos'), 'read_mpint2(encode(v)) != v', value=hex(v)[:90], got=hex(dec)[:90]))


def check_mpint1(v, viol):
    from ssh_audit.writebuf import WriteBuf
    from ssh_audit.readbuf import ReadBuf
    ref = wire.mpint1(v)
    enc = WriteBuf().write_mpint1(v).write_flush()
    if enc != ref:
        viol.append(_v('C10/mpint1-encode-differs', 'write_mpint1 differs from SSH-1 encoding', value=hex(v)[:90], got=enc.hex()[:80], want=ref.hex()[:80]))
    dec = ReadBuf(ref).read_mpint1()
    if dec != v:
        viol.append(_v('C10/mpint1-decode-wrong', 'read_mpint1(encode(v)) != v', value=hex(v)[:90], got=hex(dec)[:90]))


def run_dense(c):
    viol, n1, n2 = [], 0, 0
    for v in range(c['lo'], c['hi']):
        check_mpint2(v, viol)
        n2 += 1
        if v >= 0:
            check_mpint1(v, viol)
            n1 += 1
        if len(viol) > 20:
            break
    return viol, {'mpint2_values': n2, 'mpint1_values': n1}


def run_pow2(c):
    viol, n1, n2 = [], 0, 0
    d = c['d']
    for k in c['ks']:
        for sign in (1, -1):
            base = sign * (1 << k)
            for dd in range(-d, d + 1):
                v = base + dd
                check_mpint2(v, viol)
                n2 += 1
                if v >= 0:
                    check_mpint1(v, viol)
                    n1 += 1
            if len(viol) > 20:
                return viol, {'mpint2_values': n2, 'mpint1_values': n1}
    return viol, {'mpint2_values': n2, 'mpint1_values': n1}


def run_words(c):
    """Decode side: byte strings assembled from boundary 32-bit words, canonical or not."""
    from ssh_audit.readbuf import ReadBuf
    from ssh_audit.writebuf import WriteBuf
    import itertools
    rng = random.Random(c['seed'])
    viol, n = [], 0
    nw = c['nwords']

    def one(raw):
        nonlocal n
        n += 1
        want = int.from_bytes(raw, 'big', signed=True) if raw else 0
        try:
            got = ReadBuf(wire.string(raw)).read_mpint2()
        except Exception as e:
            viol.append(_v('C10/mpint2-decode-raises:' + type(e).__name__, 'read_mpint2 raised', raw=raw.hex()[:80]))
            return
        if got != want:
            viol.append(_v('C10/mpint2-decode-wrong:' + ('neg' if want < 0 else 'pos'), 'read_mpint2 of a two\'s complement string is wrong', raw=raw.hex()[:80], got=hex(got), want=hex(want)))
        canonical = wire.mpint(want)[4:] == raw
        if canonical:
            enc = WriteBuf().write_mpint2(want).write_flush()
            if enc != wire.string(raw):
                viol.append(_v('C10/mpint2-reencode-differs:' + ('neg' if want < 0 else 'pos'), 're-encoding a decoded canonical mpint changes the bytes', raw=raw.hex()[:80], got=enc.hex()[:80]))
    if c['lead'] >= 0:
        pool = WORDS + [rng.getrandbits(32)]
        for rest in itertools.product(pool, repeat=nw - 1):
            ws = (pool[c['lead']],) + rest
            one(b''.join(struct.pack('>I', w) for w in ws))
            if len(viol) > 20:
                break
    for _ in range(c.get('extra', 0)):
        ws = [rng.choice(WORDS + [rng.getrandbits(32)]) for _ in range(nw)]
        raw = b''.join(struct.pack('>I', w) for w in ws)
        if c.get('tail'):
            raw = raw[c['tail']:]
        one(raw)
        if len(viol) > 20:
            break
    return viol, {'mpint2_values': n}


def run_random(c):
    rng = random.Random(c['seed'])
    viol, n1, n2 = [], 0, 0
    for _ in range(c['n']):
        bits = rng.choice([8, 16, 31, 32, 33, 64, 100, 255, 256, 257, 512, 1024, 2048, 4096, 8192, rng.randint(1, 9000)])
        v = rng.getrandbits(bits)
        for s in (v, -v):
            check_mpint2(s, viol)
            n2 += 1
        check_mpint1(v, viol)
        n1 += 1
        if len(viol) > 20:
            break
    return viol, {'mpint2_values': n2, 'mpint1_values': n1}


class _Echo:
    """Loopback listener: reads strictly framed packets, keeps the raw bytes, echoes them back."""

    def __init__(self):
        self.l = socket.socket()
        self.l.bind(('127.0.0.1', 0))
        self.l.listen(1)
        self.port = self.l.getsockname()[1]
        self.raw = []
        self.script = None
        self.t = threading.Thread(target=self.run, daemon=True)
        self.t.start()

    def run(self):
        s, _ = self.l.accept()
        s.settimeout(10)
        buf = b''
        try:
            while True:
                d = s.recv(65536)
                if not d:
                    break
                buf += d
                while True:
                    ok, why, total, payload = wire.frame_verdict(buf, allow_empty=True)
                    if ok:
                        self.raw.append((buf[:total], payload, 'ok'))
                        if len(payload) >= 1:
                            s.sendall(buf[:total])
                        buf = buf[total:]
                    elif why in ('short-header', 'incomplete'):
                        break
                    else:
                        self.raw.append((buf, b'', why))
                        s.close()
                        return
        except OSError:
            pass
        finally:
            s.close()
            self.l.close()


def run_framing(c):
    from ssh_audit.ssh_socket import SSH_Socket
    from ssh_audit.outputbuffer import OutputBuffer
    viol = []
    echo = _Echo()
    s = SSH_Socket(OutputBuffer(), '127.0.0.1', echo.port, timeout=5, timeout_set=True)
    err = s.connect()
    if err is not None:
        return None, {'why': 'loopback connect failed: %s' % err}
    framed = readback = 0
    rng = random.Random(c['lo'])
    for ln in (c['lens'] if c.get('lens') else range(c['lo'], c['hi'])):
        payload = bytes([rng.choice([20, 30, 31, 34, 2, 4, 255])]) + rng.randbytes(ln - 1) if ln >= 1 else b''
        s.write(payload)
        s.send_packet()
        if ln == 0:
            continue
        try:
            t, body = s.read_packet(2)
        except BaseException as e:
            viol.append(_v('C10/own-reader-raises:' + type(e).__name__, 'read_packet raised on the tool\'s own packet', length=ln))
            break
        readback += 1
        if t != payload[0] or body != payload[1:]:
            viol.append(_v('C10/readback-differs', 'own packet reader returns a different payload', length=ln, got_type=t))
    s.close()
    echo.t.join(5)
    want = len(c['lens']) if c.get('lens') else c['hi'] - c['lo']
    if len(echo.raw) != want and not viol:
        viol.append(_v('C10/packet-count', 'peer framed %d packets, tool sent %d' % (len(echo.raw), want), lo=c['lo']))
    for raw, payload, why in echo.raw:
        framed += 1
        if why != 'ok':
            viol.append(_v('C10/bad-frame:' + why, 'emitted packet violates RFC 4253 s6', head=raw[:16].hex(), length=len(raw)))
            continue
        plen, pad = struct.unpack('>IB', raw[:5])
        if len(raw) % 8 or pad < 4 or plen != len(raw) - 4 or plen - pad - 1 != len(payload) or pad > 255:
            viol.append(_v('C10/bad-frame:fields', 'length fields inconsistent', head=raw[:16].hex()))
    return viol, {'packets_framed': framed, 'packets_readback': readback, 'small_packets_after_a_large_one': sum(1 for a, b in zip(c.get('lens', []), c.get('lens', [])[1:]) if a > 65536 and b < 1000)}


def rand_names(rng, n, unicode_share=0.0):
    alpha = 'abcdefghijklmnopqrstuvwxyz0123456789-@._+/='
    wide = alpha + '\u00e9\u00fc\u00df\u65e5\u672c\U0001f511'
    return [''.join(rng.choice(wide if rng.random() < unicode_share else alpha) for _ in range(rng.randint(1, 40))) for _ in range(n)]


def run_messages(c):
    from ssh_audit.writebuf import WriteBuf
    from ssh_audit.readbuf import ReadBuf
    from ssh_audit.ssh2_kex import SSH2_Kex
    from ssh_audit.outputbuffer import OutputBuffer
    from ssh_audit.ssh1_publickeymessage import SSH1_PublicKeyMessage
    rng = random.Random(c['seed'])
    viol, n = [], 0
    out = OutputBuffer()
    for _ in range(c['n']):
        n += 1
        # scalars
        b, i, bl = rng.randrange(256), rng.choice([0, 1, 0x7fffffff, 0x80000000, 0xffffffff, rng.getrandbits(32)]), rng.random() < .5
        st = rng.randbytes(rng.choice([0, 1, 5, 255, 256, 1000]))
        names = rand_names(rng, rng.choice([1, 1, 2, 5, 30]), unicode_share=0.3)
        text = ''.join(rng.choice('abc-@\u00e9\u65e5\U0001f511') for _ in range(rng.randint(0, 12)))   # write_string also accepts text (UTF-8)
        enc = WriteBuf().write_byte(b).write_bool(bl).write_int(i).write_string(st).write_list(names).write_string(text).write_flush()
        ref = bytes([b, 1 if bl else 0]) + wire.u32(i) + wire.string(st) + wire.namelist(names) + wire.string(text.encode('utf-8'))
        if enc != ref:
            viol.append(_v('C10/scalar-encode-differs', 'byte/bool/int/string/list encoding differs from RFC 4251', got=enc.hex()[:120], want=ref.hex()[:120]))
        rb = ReadBuf(ref)
        got = (rb.read_byte(), rb.read_bool(), rb.read_int(), rb.read_string(), rb.read_list(), rb.read_string().decode('utf-8'))
        if got != (b, bl, i, st, names, text):
            viol.append(_v('C10/scalar-decode-wrong', 'byte/bool/int/string/list do not decode to the encoded values', got=repr(got)[:200]))
        # whole KEXINIT
        k = {f: rand_names(rng, rng.choice([0, 1, 3, 12]), unicode_share=0.25) for f in wire.KEX_FIELDS}
        k['cookie'] = rng.randbytes(16).hex()
        k['follows'] = rng.random() < .3
        k['reserved'] = rng.choice([0, 0, rng.getrandbits(32)])
        payload = wire.kexinit_payload(k)[1:]
        try:
            kx = SSH2_Kex.parse(out, payload)
            re_enc = kx.payload
        except Exception as e:
            viol.append(_v('C10/kexinit-raises:' + type(e).__name__, 'SSH2_Kex.parse/payload raised on a canonical KEXINIT'))
            continue
        if re_enc != payload:
            viol.append(_v('C10/kexinit-reencode-differs', 're-encoding a parsed KEXINIT changes the bytes', got=re_enc.hex()[:100], want=payload.hex()[:100]))
        got = [kx.kex_algorithms, kx.key_algorithms, kx.client.encryption, kx.server.encryption, kx.client.mac, kx.server.mac, kx.client.compression, kx.server.compression, kx.client.languages, kx.server.languages]
        want = [k[f] if k[f] else [''] for f in wire.KEX_FIELDS]
        if got != want or kx.follows != k['follows'] or kx.unused != k['reserved'] or kx.cookie.hex() != k['cookie']:
            viol.append(_v('C10/kexinit-decode-wrong', 'parsed KEXINIT fields differ from what was encoded'))
        # whole SSH-1 public key message
        cm, am = rng.getrandbits(7), rng.getrandbits(7) & 0x7e
        pk = wire.ssh1_pkm(cm, am, rng.choice([512, 1024, 2048, 4096]), rng.choice([512, 768, 1024]), flags=rng.getrandbits(32), cookie=rng.randbytes(8))
        try:
            m = SSH1_PublicKeyMessage.parse(pk)
            if m.payload != pk:
                viol.append(_v('C10/pkm-reencode-differs', 're-encoding a parsed SSH-1 public key message changes the bytes'))
            if (m.supported_ciphers, m.supported_authentications) != tuple(wire.ssh1_names(cm, am)):
                viol.append(_v('C10/pkm-decode-wrong', 'cipher/auth names differ from the masks'))
        except Exception as e:
            viol.append(_v('C10/pkm-raises:' + type(e).__name__, 'SSH1_PublicKeyMessage raised'))
        if len(viol) > 20:
            break
    return viol, {'messages': n * 3}


def run_ssh1crc(c):
    from ssh_audit.ssh1 import SSH1
    from ssh_audit.ssh_socket import SSH_Socket
    from ssh_audit.outputbuffer import OutputBuffer
    rng = random.Random(c['seed'])
    viol, n = [], 0
    for _ in range(c['n']):
        d = rng.randbytes(rng.choice([0, 1, 7, 8, 9, 100, 1000]))
        n += 1
        if SSH1.crc32(d) != wire.ssh1_crc32(d):
            viol.append(_v('C10/ssh1-crc-wrong', 'SSH-1 CRC differs from the reference CRC-32', data=d.hex()[:60]))
            break
    # a correctly checksummed SSH-1 packet is accepted and returned unchanged, a corrupted one is refused
    # body lengths of every residue modulo 8 (SSH-1 padding is 8 - length % 8, i.e. a full 8 bytes when the length is a multiple of 8)
    res0 = resr = 0
    for bad, blen in [(False, b) for b in list(range(3, 28)) + [267, 1019, rng.randint(10, 300)]] + [(True, rng.randint(10, 300)), (True, 11)]:
        body = rng.randbytes(blen)
        res0 += (blen + 5) % 8 == 0
        pkt = wire.ssh1_packet(2, body, bad_crc=bad, random_pad=(blen % 2 == 1))   # every other packet with non-zero ("random data") padding, which the check bytes cover as well
        resr += blen % 2 == 1
        l = socket.socket()
        l.bind(('127.0.0.1', 0))
        l.listen(1)

        def srv():
            s, _ = l.accept()
            s.sendall(pkt)
            try:
                s.recv(10)
            except OSError:
                pass
            s.close()
        t = threading.Thread(target=srv, daemon=True)
        t.start()
        s = SSH_Socket(OutputBuffer(), '127.0.0.1', l.getsockname()[1], timeout=5, timeout_set=True)
        s.connect()
        try:
            ty, pl = s.read_packet(1)
            if bad:
                viol.append(_v('C10/ssh1-bad-crc-accepted', 'SSH-1 packet with wrong CRC was accepted'))
            elif (ty, pl) != (2, body):
                viol.append(_v('C10/ssh1-readback-differs', 'SSH-1 packet body changed'))
        except SystemExit:
            if not bad:
                viol.append(_v('C10/ssh1-good-crc-refused', 'SSH-1 packet with correct CRC was refused'))
        s.close()
        t.join(3)
        l.close()
        n += 1
    return viol, {'messages': n, 'ssh1_packets_length_multiple_of_8': res0, 'ssh1_packets_with_nonzero_padding': resr}


def run_e2e(c):
    """A real audit: every packet the tool sends must be strictly framed and decode to what the protocol says."""
    rng = random.Random(c['seed'])
    names = audit.db_names()
    enc = rng.sample(names['enc'], rng.randint(1, 20)) + rand_names(rng, rng.randint(0, 3))
    mac = rng.sample(names['mac'], rng.randint(1, 20))
    key = rng.sample(['ssh-rsa', 'rsa-sha2-256', 'ssh-ed25519', 'ecdsa-sha2-nistp256'], rng.randint(1, 4))
    kex = rng.sample(['curve25519-sha256', 'diffie-hellman-group14-sha256', 'diffie-hellman-group16-sha512', 'ecdh-sha2-nistp256', 'diffie-hellman-group1-sha1'], 2) + rng.sample(['diffie-hellman-group-exchange-sha256', 'diffie-hellman-group-exchange-sha1'], rng.randint(0, 2))
    script = {'banner': 'SSH-2.0-OpenSSH_9.3', 'kex': audit.sym_kex(kex, key, enc, mac, comp=rng.choice([['none'], ['none', 'zlib@openssh.com']])),
              'hostkeys': {'ssh-rsa': {'type': 'rsa', 'bits': 3072}, 'rsa-sha2-256': {'type': 'rsa', 'bits': 3072}, 'ssh-ed25519': {'type': 'ed25519'}, 'ecdsa-sha2-nistp256': {'type': 'ecdsa', 'bits': 256}},
              'gex': {'sizes': [2048, 4096], 'style': 'strict'}}
    if c.get('reset'):
        # the server hands out a large group and then resets the connection: the tool's next send on that connection fails, and whatever it had assembled must not leak into the next connection
        script['kex'] = audit.sym_kex(['curve25519-sha256', 'diffie-hellman-group-exchange-sha256'], key, enc, mac)
        script['gex'] = {'sizes': [8192], 'style': 'roundup'}
        script['faults'] = [{'conn': {'ge': 1}, 'at': 'gexgroup', 'op': 'then_reset', 'pause': 0.03}]
    r, p = audit.audit_server(script, ['-n'])
    viol, npk = [], 0
    if r.status not in (0, 2, 3):
        return None, {'why': 'audit did not complete: status %s' % r.status}
    for e in p.events:
        if e['kind'] == 'bad-frame':
            viol.append(_v('C10/bad-frame:' + e['why'], 'tool emitted a badly framed packet during an audit', head=e['head']))
        if e['kind'] == 'client-kexinit-bad':
            viol.append(_v('C10/emitted-kexinit-undecodable', 'the tool\'s own KEXINIT does not decode strictly: ' + e['why']))
        if e['kind'] == 'partial-at-eof':
            viol.append(_v('C10/partial-packet', 'connection ended inside a packet'))
    resets = sum(1 for e in p.events if e['kind'] == 'closed' and e.get('reset'))
    for cn in p.conns:
        if cn.packets and cn.packets[0][2] and cn.packets[0][0] != wire.MSG_KEXINIT:
            viol.append(_v('C10/first-packet-not-kexinit:%d' % cn.packets[0][0], 'the first packet the tool sent on a connection is not its KEXINIT', conn=cn.idx, type=cn.packets[0][0], n=len(cn.packets[0][1])))
        for t, payload, ok, why in cn.packets:
            npk += 1
            if not ok:
                continue
            try:
                if t == wire.MSG_KEXDH_INIT:
                    (ln,) = struct.unpack_from('>I', payload, 1)
                    if 5 + ln != len(payload):
                        raise wire.WireError('KEXDH_INIT string length')
                elif t == wire.MSG_GEX_INIT:
                    v, off = wire.mpint_decode(payload, 1)
                    if off != len(payload) or v <= 0 or wire.mpint(v) != payload[1:]:
                        raise wire.WireError('GEX_INIT e is not a canonical positive mpint')
            except (wire.WireError, struct.error) as e:
                viol.append(_v('C10/emitted-message-malformed:%d' % t, str(e)))
    return viol, {'e2e_packets': npk, 'e2e_connections': len(p.conns), 'e2e_connections_reset_by_peer': resets}


RUNNERS = {'dense': run_dense, 'pow2': run_pow2, 'words': run_words, 'random': run_random, 'framing': run_framing, 'messages': run_messages, 'ssh1crc': run_ssh1crc, 'e2e': run_e2e}


def run_case(c):
    viol, counters = RUNNERS[c['kind']](c)
    if viol is None:
        return {'verdict': 'inconclusive', 'why': counters.get('why')}
    # one violation per mechanism key is enough as a witness
    seen, uniq = set(), []
    for v in viol:
        if v['key'] not in seen:
            seen.add(v['key'])
            uniq.append(v)
    return {'violations': uniq, 'counters': counters, 'nontrivial': sum(v for v in counters.values() if isinstance(v, int)) > 0,
            'sample': {'case': c, 'observed': counters}, 'sample_kind': c['kind']}
