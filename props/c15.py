"""C15 - output options change presentation only, never findings or verdict."""
import itertools
import json
import random

from harness import audit, gen, peer as peermod, report, runner, wire

ID = 'C15'
LEVEL = 'exploration'
SHARDS = 16
THREADS = 1
RULE = ('one case = one scripted peer (severity mix with host-key and group-exchange sizes, unknown names, gss names, SSH-1, or a failing handshake) audited under the full option lattice '
        '{-b} x {-v} x {-n} x {-l info,warn,fail} x {none,-j,-jj} = 72 option sets against the same listening port, plus repeated runs under PYTHONHASHSEED 0,1,2,random.  Oracle: equal exit status everywhere; '
        'equal (category, algorithm, severity, note) sets across text renderings and, for database-known names, JSON; every -l L rendering is a subsequence of the -l info rendering whose dropped lines are all below L; '
        'JSON stdout parses as one document and -j == -jj as values; repeated runs are byte-identical.  Non-trivial: >= 60 option sets compared; distinct = distinct peers')
REQUIRED = {'option_sets_run': 500, 'finding_sets_compared': 40, 'level_filter_checks': 60, 'json_docs_parsed': 100, 'repeat_pairs': 20}
ASSUMPTIONS = ['line levels: the [fail]/[warn]/[info] tag where present, else the ANSI colour of the line in the colour rendering',
               'names the database does not know are exempt from text/JSON level equality (the statement says so); they must still appear in both']
MANIFEST = {
    'text': 'Exploration: the complete 72-element option lattice is executed for each generated peer and all renderings are compared with each other (status, finding sets, level-filter subsequence, JSON well-formedness, byte-identical repeats under different hash seeds).',
    'note': 'Purely relational between executions of the same peer; trusts the report parsers; ANSI colour is taken as the level of untagged lines.',
    'technique': 'metamorphic runtime monitoring across the option lattice: option set A vs option set B on the same peer',
}


def lattice():
    sets = []
    for b, v, n, lvl, j in itertools.product([0, 1], [0, 1], [0, 1], ['info', 'warn', 'fail'], ['', '-j', '-jj']):
        a = (['-b'] if b else []) + (['-v'] if v else []) + (['-n'] if n else []) + (['-l', lvl] if lvl != 'info' or (b + v + n) % 2 else []) + ([j] if j else [])
        sets.append({'b': b, 'v': v, 'n': n, 'l': lvl, 'j': j, 'args': a})
    return sets


def cases(tier, seed):
    rng = random.Random(seed * 29 + 15)
    kinds = ['mix', 'sizes', 'unknown', 'gss', 'ssh1', 'broken', 'terrapin', 'clean', 'mix', 'sizes', 'mix', 'mix']
    n = 8 if tier == 'quick' else 144
    cs = [{'kind': kinds[i % len(kinds)], 'seed': rng.randrange(1 << 30)} for i in range(n)]
    cs += [{'kind': 'warnonly', 'seed': rng.randrange(1 << 30)} for _ in range(1 if tier == 'quick' else 12)]   # the worst finding is a warning: the status must not move with -l
    for j, c in enumerate([c for c in cs if c['kind'] == 'mix']):
        c['asym'] = j % 2 == 0
    for c in cs:
        if c['kind'] == 'terrapin':
            c['marker'] = True   # the quick tier's single Terrapin peer carries the marker (advisory text lists the algorithms); thorough has both variants via the seed
            break
    return cs


def _v(key, what, **d):
    return {'key': key, 'what': what, 'detail': d}


def build_script(c):
    rng = random.Random(c['seed'])
    names = audit.db_names()
    kind = c['kind']
    if kind == 'ssh1':
        return {'banner': 'SSH-1.5-OpenSSH_1.2.3', 'proto': 1, 'ssh1': {'cmask': rng.choice([0x48, 0x4d, 0x7f]), 'amask': rng.choice([0x0c, 0x3e])}}
    if kind == 'broken':
        k = audit.sym_kex(['curve25519-sha256'], ['ssh-ed25519'], ['aes128-ctr'], ['hmac-sha2-256'])
        return {'banner': 'SSH-2.0-OpenSSH_9.0', 'kex': k, 'faults': [{'at': 'kexinit', 'op': 'close_before'}]}
    classes = {'db': 1}
    if kind == 'unknown':
        classes = {'db': 6, 'unknown': 2}
    if kind == 'gss':
        classes = {'db': 5, 'gss': 3}
    k = gen.random_kex(rng, names, classes, (2, 7), sym=not c.get('asym'))   # half of the mixed peers advertise other cipher/MAC lists in the other direction: every rendering is about the same direction
    if kind == 'gss':
        # several instantiations of the same wildcard family (one per GSS mechanism), as real GSS servers advertise
        for fam in ('gss-group1-sha1-*', 'gss-gex-sha1-*', 'gss-group14-sha256-*'):
            k['kex'] += [audit.gss_instance(rng, fam) for _ in range(3)]
    if kind == 'warnonly':
        k = audit.sym_kex(['sntrup761x25519-sha512@openssh.com', 'curve25519-sha256', 'kex-strict-s-v00@openssh.com'], ['ssh-ed25519'], ['aes256-gcm@openssh.com', 'aes128-ctr'], rng.sample(['hmac-sha2-256', 'hmac-sha2-512-etm@openssh.com', 'hmac-sha2-512'], 2))
    if kind == 'clean':
        # names without any failure or warning - each listed twice, so that whatever a rendering remembers from the first occurrence meets the second
        k = audit.sym_kex(['sntrup761x25519-sha512@openssh.com', 'kex-strict-s-v00@openssh.com', 'sntrup761x25519-sha512@openssh.com'], ['ssh-ed25519', 'ssh-ed25519'], ['aes256-gcm@openssh.com', 'aes128-gcm@openssh.com', 'aes256-gcm@openssh.com'],
                          ['hmac-sha2-512-etm@openssh.com', 'hmac-sha2-256-etm@openssh.com', 'hmac-sha2-512-etm@openssh.com'])
    if kind == 'terrapin':
        # several CBC ciphers and several ETM MACs, with the strict-kex marker on every other peer (advisory note) and without it (per-algorithm warnings)
        k['enc_sc'] = k['enc_cs'] = ['chacha20-poly1305@openssh.com', 'aes128-cbc', 'aes192-cbc', 'aes256-cbc', '3des-cbc', 'aes256-ctr', 'aes128-cbc']
        k['mac_sc'] = k['mac_cs'] = ['hmac-sha2-256-etm@openssh.com', 'hmac-sha2-512-etm@openssh.com', 'umac-128-etm@openssh.com', 'hmac-sha1']
        # names the database knows both as cipher and as MAC, with different entries, listed in both categories (RFC 5647 requires that for the AEAD names): each rendering rates each occurrence by its own category
        both = ['chacha20-poly1305@openssh.com', 'AEAD_AES_128_GCM', 'none']
        k['enc_sc'] = k['enc_cs'] = k['enc_sc'] + [x for x in both if x not in k['enc_sc']]
        k['mac_sc'] = k['mac_cs'] = k['mac_sc'] + both
        k['kex'] = [x for x in k['kex'] if not x.startswith('kex-strict')] + (['kex-strict-s-v00@openssh.com'] if c['seed'] % 2 == 0 or c.get('marker') else [])
    hk, gex = {}, None
    if kind == 'sizes':
        k['key'] = rng.sample(['ssh-rsa', 'rsa-sha2-512', 'ssh-ed25519', 'ssh-rsa-cert-v01@openssh.com', 'ecdsa-sha2-nistp256'], 3)
        k['kex'] = ['curve25519-sha256'] + rng.sample(['diffie-hellman-group-exchange-sha256', 'diffie-hellman-group-exchange-sha1', 'diffie-hellman-group14-sha1'], 2)
        bits = rng.choice([1024, 2048, 3072, 4096])
        hk = gen.hostkeys_for(k['key'], {t: {'type': 'rsa', 'bits': bits} for t in ('ssh-rsa', 'rsa-sha2-512')})
        hk['ssh-rsa-cert-v01@openssh.com'] = {'type': 'rsa-cert', 'bits': bits, 'ca': {'type': 'rsa', 'bits': rng.choice([1024, 2048, 4096])}}
        gex = {'sizes': [rng.choice([1024, 2048, 3072])], 'style': 'strict'}
    sw = rng.choice(['OpenSSH_8.4p1 Debian-5', 'dropbear_2020.81', 'libssh_0.9.6', 'Unknown_1.0'])
    if kind == 'gss':
        sw = 'OpenSSH_8.4p1 Debian-5'   # recognised software, so that the recommendation section (whose order must not depend on hashing) is populated
    return {'banner': 'SSH-2.0-' + sw, 'kex': k, 'hostkeys': hk, 'gex': gex}


def level_of(raw):
    line = report.strip_ansi(raw)
    m = report.CONT.match(line)
    if m:
        return m.group(1)
    pm = report.PREFIX.match(line)
    if pm and pm.group(1) in report.CATS:
        am = report.ALGLINE.match(pm.group(2).rstrip())
        if am and am.group(5):
            return am.group(5)
    col = report.line_color(raw)
    if col in ('fail', 'warn'):
        return col
    if col == 'head':
        return 'head'
    return 'info'


def nonblank(out):
    return [l for l in out.split('\n') if report.strip_ansi(l).strip()]


def run_case(c):
    script = build_script(c)
    p = peermod.ServerPeer(script)
    viol, counters = [], {'option_sets_run': 0, 'finding_sets_compared': 0, 'level_filter_checks': 0, 'json_docs_parsed': 0, 'repeat_pairs': 0}
    runs = []
    import concurrent.futures
    try:
        with concurrent.futures.ThreadPoolExecutor(max_workers=4) as ex:
            lat = lattice()
            for o, r in zip(lat, ex.map(lambda o: runner.run_cli(['--skip-rate-test', '-t', '3'] + o['args'] + [p.target()], timeout=90), lat)):
                runs.append((o, r))
                counters['option_sets_run'] += 1
            # repeats under different hash seeds
            reps = {}
            jobs = [(args, hs) for args in (['-n'], ['-j'], ['-jj'], ['-n', '-v'], ['-n', '-b'], [], ['-n', '-l', 'warn']) for hs in ('0', '1', '2', 'random')]
            for (args, hs), r in zip(jobs, ex.map(lambda j: runner.run_cli(['--skip-rate-test', '-t', '3'] + j[0] + [p.target()], timeout=90, hashseed=j[1]), jobs)):
                reps.setdefault(' '.join(args), []).append((hs, r))
    finally:
        p.stop()
    if any(r.timed_out for _o, r in runs):
        return {'verdict': 'inconclusive', 'why': 'watchdog'}
    # -------------------------------------------------------------------- status
    statuses = {r.status for _o, r in runs}
    if len(statuses) != 1:
        by = {}
        for o, r in runs:
            by.setdefault(r.status, []).append(' '.join(o['args']))
        viol.append(_v('C15/status-depends-on-options:' + c['kind'], 'exit status differs between option sets for the same peer', by_status={k: v[:4] for k, v in by.items()}))
    # -------------------------------------------------------------------- JSON well-formedness, -j == -jj
    docs = {}
    for o, r in runs:
        if not o['j']:
            continue
        try:
            docs[(o['b'], o['v'], o['n'], o['l'], o['j'])] = json.loads(r.out)
            counters['json_docs_parsed'] += 1
        except ValueError:
            why = 'verbose-preamble' if o['v'] and r.out.lstrip().startswith(('Starting audit', 'Listening')) else ('error-line-after-document' if r.status == 1 else 'other')
            viol.append(_v('C15/json-not-one-document:' + why, 'stdout of a JSON run is not one JSON document', args=o['args'], out=r.out[:200] + ' ... ' + r.out[-200:]))
    vals = list(docs.values())
    for k, d in docs.items():
        if d != vals[0]:
            viol.append(_v('C15/json-differs-between-options', 'JSON value differs between option sets', a=list(docs.keys())[0], b=k))
            break
    # -------------------------------------------------------------------- finding sets across text renderings
    base = None
    for o, r in runs:
        if o['j'] or o['l'] != 'info' or r.status not in (0, 2, 3):
            continue
        rep = report.parse_text(r.out, verbose=bool(o['v']))
        f = rep.findings()
        shape = [(a.cat, a.name) for cat in report.CATS for a in rep.algs[cat]]
        if o['v']:
            shape = [x for i, x in enumerate(shape) if i == 0 or shape[i - 1] != x]
        counters['finding_sets_compared'] += 1
        if base is None:
            base = (o, f, shape)
            continue
        if f != base[1]:
            viol.append(_v('C15/findings-differ:text:' + ('b' if o['b'] else '') + ('v' if o['v'] else '') + ('n' if o['n'] else ''), 'finding set differs between text renderings',
                           a=base[0]['args'], b=o['args'], only_a=sorted(base[1] - f)[:4], only_b=sorted(f - base[1])[:4]))
    if base is not None and vals:
        known = {(cat, n) for cat in ('kex', 'key', 'enc', 'mac') for n in audit.db_names()[cat]}

        def is_known(cat, n):
            if (cat, n) in known:
                return True
            return cat == 'kex' and n.startswith('gss-') and (cat, n[:n.rindex('-')] + '-*') in known
        jf = {x for x in report.json_findings(vals[0]) if is_known(x[0], x[1])}
        tf = {x for x in base[1] if x[0] in ('kex', 'key', 'enc', 'mac') and is_known(x[0], x[1])}
        counters['finding_sets_compared'] += 1
        if jf != tf and 'kex' in vals[0]:
            viol.append(_v('C15/findings-differ:json-vs-text', 'finding set for database-known names differs between JSON and text', only_json=sorted(jf - tf)[:4], only_text=sorted(tf - jf)[:4]))
    # -------------------------------------------------------------------- level filter
    idx = {(o['b'], o['v'], o['n'], o['l']): r for o, r in runs if not o['j']}
    order = {'info': 0, 'head': 9, 'warn': 1, 'fail': 2}
    for (b, v, n, l), r in idx.items():
        if l == 'info':
            continue
        ref = idx[(b, v, n, 'info')]
        A, B = nonblank(ref.out), nonblank(r.out)
        counters['level_filter_checks'] += 1
        i = 0
        dropped = []
        okseq = True
        for line in A:
            if i < len(B) and B[i] == line:
                i += 1
            else:
                dropped.append(line)
        if i != len(B):
            okseq = False
            viol.append(_v('C15/level-filter-not-subsequence:' + l, 'raising the minimum level added or altered a line', args=['-l', l, b, v, n], first_unmatched=report.strip_ansi(B[i])[:200]))
        if okseq and not n:
            for line in dropped:
                lv = level_of(line)
                if lv == 'head':
                    continue
                if order[lv] >= order[l]:
                    viol.append(_v('C15/level-filter-dropped-line-at-level:' + l, 'a line at or above the minimum level was removed', line=report.strip_ansi(line)[:200], level=lv))
                    break
    # -------------------------------------------------------------------- determinism
    for args, outs in reps.items():
        ref = outs[0][1]
        for hs, r in outs[1:]:
            counters['repeat_pairs'] += 1
            if r.out != ref.out or r.status != ref.status:
                viol.append(_v('C15/not-deterministic:' + (args or 'color'), 'repeated audit of the same peer differs (PYTHONHASHSEED %s vs 0)' % hs, a=ref.out[:300], b=r.out[:300]))
                break
    seen, uniq = set(), []
    for vv in viol:
        if vv['key'] not in seen:
            seen.add(vv['key'])
            uniq.append(vv)
    return {'violations': uniq, 'counters': counters, 'nontrivial': counters['option_sets_run'] >= 60,
            'sample': {'case': c, 'status': sorted(statuses), 'observed': counters}, 'sample_kind': c['kind']}
