"""C02 - exit status reflects the worst finding; incomplete audits never look clean."""
import itertools
import json
import os
import random

from harness import audit, gen, multi, report, runner, wire

ID = 'C02'
LEVEL = 'exploration'
SHARDS = 16
THREADS = 2
RULE = ('one case = one scripted peer audited under 7 option sets (colour, -n, -b, -v, -j, -l warn, -l fail).  Peers: severity-mix KEXINITs (each list draws a chosen non-empty subset of '
        '{failure-rated, warning-only, clean} database names in a chosen order, optionally unknown names), SSH-1 servers and SSH-1.99 banners, handshakes broken at each stage '
        '(refused, silent, closed after banner, garbage, truncated KEXINIT, wrong first packet, bad block size), and policy audits (-P) of passing and failing peers.  Oracle: status == 3/2/0 by the '
        'worst finding level visible in the report (algorithm notes by tag, general/security lines by colour); broken handshakes: status not in {0,2,3} and no algorithm lines/lists; policy: status 0 <=> passed, 3 <=> failed.  '
        'A case is non-trivial when at least one option set produced a report/verdict that was compared with the status; distinct = distinct peer specifications')
REQUIRED = {'multi_target_runs': 12, 'client_audits': 8, 'empty_entry_after_findings': 5, 'single_failure_by_entry_shape': 6, 'banners_with_two_findings': 2, 'gss_only_failure': 4, 'empty_entry_before_failure': 4, 'broken_after_rated_banner': 9, 'builtin_policy_runs': 10, 'outdated_builtin_policy_runs': 4, 'status_checks': 200, 'expect3': 10, 'expect2': 5, 'expect0': 3, 'broken_handshakes': 10, 'policy_runs': 10}
ASSUMPTIONS = ['findings are algorithm notes plus failure/warning coloured lines of the general and security sections; (nfo), (rec) and (fin) lines are presentation, not findings',
               'levels of untagged (gen)/(sec) lines are only observable in colour renderings; the expected status of all option sets of a peer is derived from its colour rendering']
MANIFEST = {
    'text': 'Exploration: severity mixes in every order and subset per list, SSH-1 variants, broken handshakes at each stage and policy audits are executed for real under seven option sets; the exit status is compared with the worst finding the report itself shows.',
    'note': 'Relational oracle inside one execution (status vs the report of the same run) plus cross-option agreement; trusts report parsers and ANSI colour as the level of untagged lines.',
    'technique': 'boundary monitoring: exit status vs findings parsed from the same report, across option sets; fault archetypes for incomplete audits',
}
OPTSETS = [('color', []), ('plain', ['-n']), ('batch', ['-n', '-b']), ('verbose', ['-n', '-v']), ('json', ['-j']), ('lwarn', ['-n', '-l', 'warn']), ('lfail', ['-n', '-l', 'fail'])]
BROKEN = ['refused', 'silent', 'close-after-banner', 'garbage-banner', 'truncated-kexinit', 'wrong-first-packet', 'bad-block-size', 'close-before-banner', 'stall-after-banner',
          'payload-cut-in-namelists', 'namelist-overruns-payload', 'payload-only-cookie']


BANNER_VARIANTS = ['SSH-2.0-Open\x01SSH_9.0', 'SSH-1.99-OpenSSH_3.9p1', 'SSH-2.0-OpenSSH_9.0 caf\xe9', 'SSH-1.99-Cisco-1.25']


def cases(tier, seed):
    rng = random.Random(seed * 19 + 2)
    cs = []
    subsets = [('fail',), ('warn',), ('clean',), ('fail', 'warn'), ('fail', 'clean'), ('warn', 'clean'), ('fail', 'warn', 'clean')]
    n = 40 if tier == 'quick' else 800
    for i in range(n):
        mix = {cat: list(rng.choice(subsets)) for cat in ('kex', 'key', 'enc', 'mac')}
        if i % 5 == 0:   # an all-clean-as-possible peer (status 0 or 2 candidates)
            mix = {cat: ['clean'] for cat in mix}
        if i % 5 == 1:
            mix = {cat: list(rng.choice([('warn',), ('clean',), ('warn', 'clean')])) for cat in mix}
        for cat in mix:
            rng.shuffle(mix[cat])
        cs.append({'kind': 'mix', 'seed': rng.randrange(1 << 30), 'mix': mix, 'unknown': i % 7 == 3, 'probes': i % 3 != 0})
    for i, forced in enumerate(['/', '+', 'a+/', '/'] * (1 if tier == 'quick' else 6)):
        cs.append({'kind': 'mix', 'seed': rng.randrange(1 << 30), 'mix': {c_: ['clean'] if i % 2 else ['warn', 'clean'] for c_ in ('kex', 'key', 'enc', 'mac')}, 'unknown': False, 'probes': False, 'gss_fail': forced})
    for i in range(4 if tier == 'quick' else 40):
        cs.append({'kind': 'mix', 'seed': rng.randrange(1 << 30), 'mix': {c_: [['clean'], ['warn', 'clean'], ['clean'], ['warn']][i % 4] for c_ in ('kex', 'key', 'enc', 'mac')}, 'unknown': False, 'probes': i % 2 == 0, 'dup': True})
    for i, cat in enumerate(('enc', 'mac', 'kex', 'key') * (1 if tier == 'quick' else 6)):
        cs.append({'kind': 'mix', 'seed': rng.randrange(1 << 30), 'mix': {c_: ['clean'] if i % 2 else ['warn', 'clean'] for c_ in ('kex', 'key', 'enc', 'mac')}, 'unknown': False, 'probes': False, 'empty_before_fail': cat})
    # an empty entry AFTER the findings: a trailing comma ("a,b,"), or a whole list that is empty (AEAD-only peers send no MACs) in a category rendered after the one holding the failure
    for i, (cat, how) in enumerate([('enc', 'trailing'), ('mac', 'trailing'), ('kex', 'trailing'), ('mac', 'empty-list'), ('enc', 'empty-list'), ('key', 'trailing')] * (1 if tier == 'quick' else 4)):
        cs.append({'kind': 'mix', 'seed': rng.randrange(1 << 30), 'mix': {c_: ['clean'] if c_ != ('enc' if cat == 'mac' else 'kex') else ['fail', 'clean'] for c_ in ('kex', 'key', 'enc', 'mac')}, 'unknown': False, 'probes': False, 'empty_after': [cat, how]})
    # the only failure-rated name of the peer is one whose table entry has a given shape (number of slots, with / without a version history): whatever the shape, every rendering shows the failure the status reports
    for cat, shape in fail_shapes():
        cs.append({'kind': 'mix', 'seed': rng.randrange(1 << 30), 'mix': {c_: ['clean'] for c_ in ('kex', 'key', 'enc', 'mac')}, 'unknown': False, 'probes': False, 'fail_shape': [cat, list(shape)]})
    # client audits, with the worst algorithm in one direction only / both / none
    for i, (cat, level, which) in enumerate(itertools.product(['enc', 'mac'], ['fail', 'warn'], ['sc', 'cs', 'both']) if tier == 'thorough' else [('enc', 'fail', 'sc'), ('enc', 'fail', 'cs'), ('mac', 'fail', 'cs'), ('mac', 'warn', 'sc'), ('enc', 'warn', 'both'), ('mac', 'fail', 'both')]):
        cs.append({'kind': 'client', 'seed': rng.randrange(1 << 30), 'cat': cat, 'level': level, 'which': which})
    for i, (cm, am) in enumerate([(0x48, 0x0c), (0x08, 0x04), (0x49, 0x0c), (0x48, 0x0e), (0x7f, 0x7e)]):
        cs.append({'kind': 'ssh1', 'cmask': cm, 'amask': am})
    for i in range(3 if tier == 'quick' else 12):
        cs.append({'kind': 'ssh199', 'seed': rng.randrange(1 << 30), 'clean': i % 2 == 0})
    # the same servers audited with a protocol option (-2: SSH-2 only; -1 -2 spelled out; -4): what the banner announces is still a finding
    for i, opts in enumerate([['-2'], ['-1', '-2'], ['-2', '-4']] if tier == 'quick' else [['-2'], ['-1', '-2'], ['-2', '-4'], ['-2'], ['--ssh2'], ['--ssh1', '--ssh2']]):
        cs.append({'kind': 'ssh199', 'seed': rng.randrange(1 << 30), 'clean': i % 2 == 0, 'opts': opts})
    # two banner findings of different levels at once (SSH-1.99: failure; non-printable character: warning), with failure-free algorithms: the status follows the worse one
    for i in range(2 if tier == 'quick' else 8):
        cs.append({'kind': 'ssh199', 'seed': rng.randrange(1 << 30), 'clean': i % 2 == 0, 'np': True})
    for i in range(3 if tier == 'quick' else 12):
        cs.append({'kind': 'nonascii-banner', 'seed': rng.randrange(1 << 30)})
    for b in BROKEN:
        for rep_ in range(1 if tier == 'quick' else 3):
            cs.append({'kind': 'broken', 'how': b, 'seed': rng.randrange(1 << 30)})
    # the same breaks after a banner that by itself earns a warning / failure line: the audit is still incomplete
    for b in ('close-after-banner', 'stall-after-banner', 'truncated-kexinit', 'wrong-first-packet', 'bad-block-size', 'payload-cut-in-namelists', 'payload-only-cookie'):
        for bn in (BANNER_VARIANTS if tier == 'thorough' or b in ('close-after-banner', 'wrong-first-packet') else [BANNER_VARIANTS[BROKEN.index(b) % len(BANNER_VARIANTS)]]):
            cs.append({'kind': 'broken', 'how': b, 'seed': rng.randrange(1 << 30), 'banner': bn})
    for i in range(16 if tier == 'quick' else 240):
        cs.append({'kind': 'policy', 'seed': rng.randrange(1 << 30), 'drift': i % 2 == 1, 'json': i % 4 >= 2})
    from ssh_audit.builtin_policies import BUILTIN_POLICIES
    pols = [n for n, p_ in BUILTIN_POLICIES.items() if p_['server_policy']]
    outdated = [n for n in pols if n.replace('(version %s)' % BUILTIN_POLICIES[n]['version'], '(version %d)' % (int(BUILTIN_POLICIES[n]['version']) + 1)) in BUILTIN_POLICIES]
    chosen = outdated + [n for n in pols if n not in outdated][:: (6 if tier == 'quick' else 1)]
    for i, n in enumerate(chosen):
        for drift in (False, True):
            cs.append({'kind': 'builtin-policy', 'policy': n, 'drift': drift, 'json': (i + drift) % 2 == 0, 'outdated': n in outdated})
    # a targets-file run: the status is that of the worst finding in the whole report, whichever target completes last (--threads 1: completion order == file order)
    pool = ['rsa1024', 'warn-only', 'good-only', '!refused']
    perms = [p_ for n_ in (2, 3, 4) for p_ in itertools.permutations(pool, n_)]
    for i, perm in enumerate(perms):
        if tier == 'quick' and i % 5 != seed % 5 and len(perm) != 2:
            continue
        cs.append({'kind': 'multi', 'targets': list(perm), 'threads': 1 if i % 4 else 2})
    return cs


def _v(key, what, **d):
    return {'key': key, 'what': what, 'detail': d}


def by_class(names):
    out = {}
    for cat in ('kex', 'key', 'enc', 'mac'):
        out[cat] = {'fail': [], 'warn': [], 'clean': []}
        for n in names[cat]:
            if n.endswith('-*'):
                continue
            out[cat][gen.classify_db(cat, n)].append(n)
    return out


def text_levels(out, verbose=False, color=False):
    """Worst-level inputs visible in a text report: (set of levels from algorithm notes, set of levels from coloured gen/sec lines)."""
    rep = report.parse_text(out, verbose=verbose)
    lv = {lvl for (_c, _n, lvl, _t) in rep.findings()}
    extra = set()
    if color:
        for _k, _v_, col in rep.gen:
            if col in ('fail', 'warn'):
                extra.add(col)
        for _t, col in rep.sec:
            if col in ('fail', 'warn'):
                extra.add(col)
    return lv, extra, rep


def want_status(levels):
    return 3 if 'fail' in levels else 2 if 'warn' in levels else 0


def check_optsets(script, viol, counters, client=False, tag='', pre=()):
    """Run all option sets against equal peers; compare each status with the findings of the colour rendering and of the run itself."""
    runs = {}
    for name, args in OPTSETS:
        r, p = audit.audit_server(script, list(pre) + args)
        runs[name] = r
    rc = runs['color']
    if rc.status not in (0, 2, 3):
        viol.append(_v('C02/audit-failed:status%s%s' % (rc.status, tag), 'audit of a well-formed peer did not complete', out=rc.out[-500:]))
        return runs
    lv, extra, rep = text_levels(rc.out, color=True)
    expected = want_status(lv | extra)
    counters['expect%d' % expected] = counters.get('expect%d' % expected, 0) + 1
    for name, _a in OPTSETS:
        r = runs[name]
        counters['status_checks'] = counters.get('status_checks', 0) + 1
        if r.status != expected:
            if extra - lv and want_status(lv) == r.status:
                src = 'ssh1-lines' if any('SSH1' in k or 'SSH v1' in t for k, *_ in rep.gen for t, _c in (rep.sec or [('', None)])) or rep.sec else 'banner-nonprintable' if any('non-printable' in k for k, *_ in rep.gen) else 'gen-line'
                viol.append(_v('C02/status-ignores-%s%s' % (src, tag), 'a failure/warning level line of the general or security section is not reflected in the exit status',
                               optset=name, status=r.status, expected=expected, lines=[k for k, _x, col in rep.gen if col in ('fail', 'warn')] + [t for t, col in rep.sec if col]))
            else:
                viol.append(_v('C02/status-wrong:%s:got%s-want%s%s' % (name, r.status, expected, tag), 'exit status differs from the worst finding level of the report', optset=name, status=r.status, expected=expected,
                               levels=sorted(lv | extra)))
        # the run's own report must not show a worse level than its status admits
        if name == 'json':
            try:
                doc = json.loads(r.out)
            except ValueError:
                viol.append(_v('C02/json-unparsable' + tag, 'stdout of -j is not one JSON document', out=r.out[:200]))
                continue
            jl = {lvl for (_c, _n, lvl, _t) in report.json_findings(doc) if lvl in ('fail', 'warn')}
            if want_status(jl) > r.status and r.status in (0, 2, 3):
                unknown_only = all('unknown algorithm' in t for (_c, _n, lvl, t) in report.json_findings(doc) if lvl == 'fail') if r.status == 2 else False
                viol.append(_v('C02/json-shows-worse-than-status:%s%s' % ('unknown-name' if unknown_only else 'other', tag), 'the JSON report contains a finding of a level the exit status does not reflect',
                               status=r.status, json_levels=sorted(jl)))
            # ... nor a milder one, where the algorithm findings alone account for the status (banner-level findings are not part of the JSON algorithm notes)
            counters['json_level_checks'] = counters.get('json_level_checks', 0) + 1
            if script.get('proto') != 1 and r.status in (2, 3) and want_status(lv) == r.status == expected and want_status(jl) < r.status:   # (the JSON document of an SSH-1 audit lists cipher names without notes)
                viol.append(_v('C02/status-worse-than-json-shows:got%s-json%s%s' % (r.status, want_status(jl), tag), 'the exit status reports a level of which the JSON report of the same audit shows no finding (the text report does)',
                               status=r.status, json_levels=sorted(jl), text_levels=sorted(lv)))
        elif name in ('plain', 'batch', 'verbose', 'lwarn', 'lfail'):
            l2, _e, _r = text_levels(r.out, verbose=(name == 'verbose'))
            if want_status(l2) > r.status and r.status in (0, 2, 3):
                viol.append(_v('C02/report-shows-worse-than-status:%s%s' % (name, tag), 'the report shows a finding of a level the exit status does not reflect', status=r.status, levels=sorted(l2)))
    return runs


def fail_shapes():
    out = []
    for cat in ('kex', 'key', 'enc', 'mac'):
        seen = []
        for n in audit.db_names()[cat]:
            e = audit.db_entry(cat, n)
            if gen.classify_db(cat, n) == 'fail' and not n.startswith('gss-') and not (cat in ('enc', 'mac') and gen.is_terrapin_shape(n)):
                sh = (len(e), bool(e[0]), bool(len(e) > 2 and e[2]))
                if sh not in seen:
                    seen.append(sh)
                    out.append((cat, sh))
    return out


def run_mix(c):
    rng = random.Random(c['seed'])
    cls = by_class(audit.db_names())
    lists = {}
    for cat in ('kex', 'key', 'enc', 'mac'):
        lst = []
        for klass in c['mix'][cat]:
            pool = cls[cat][klass]
            if cat == 'kex':
                pool = [x for x in pool if not x.startswith('gss-')]
            if cat in ('enc', 'mac') and klass != 'fail':
                # keep Terrapin out of the mix: it is C04's subject and would add warnings to 'clean' picks
                pool = [x for x in pool if not gen.is_terrapin_shape(x)] or pool
            if pool:
                lst += rng.sample(pool, min(len(pool), rng.randint(1, 2)))
        lists[cat] = lst or [rng.choice(cls[cat]['clean'] or cls[cat]['warn'])]
    if c['unknown']:
        lists[rng.choice(['kex', 'key', 'enc', 'mac'])].append(audit.unknown_name(rng))
    if c.get('gss_fail'):
        # the only failure of the peer is a GSS key exchange (looked up through its wildcard entry), with '/' and '+' in the mechanism suffix
        fams = [x for x in audit.db_names()['kex'] if x.startswith('gss-') and x.endswith('-*') and gen.classify_db('kex', x) == 'fail']
        lists['kex'] = [x for x in lists['kex'] if x not in cls['kex']['fail']] + [audit.gss_instance(rng, rng.choice(fams), forced=c['gss_fail'])]
    if c.get('fail_shape'):
        cat, sh = c['fail_shape'][0], tuple(c['fail_shape'][1])
        pool = [n for n in audit.db_names()[cat] if gen.classify_db(cat, n) == 'fail' and not n.startswith('gss-') and not (cat in ('enc', 'mac') and gen.is_terrapin_shape(n))
                and (len(audit.db_entry(cat, n)), bool(audit.db_entry(cat, n)[0]), bool(len(audit.db_entry(cat, n)) > 2 and audit.db_entry(cat, n)[2])) == sh]
        lists[cat] = lists[cat] + [rng.choice(pool)]
    if c.get('dup'):
        # the same names listed twice
        for cat in lists:
            lists[cat] = lists[cat] + lists[cat][:2]
    if c.get('empty_after'):
        cat, how = c['empty_after']
        lists[cat] = [''] if how == 'empty-list' else lists[cat] + ['']
    if c.get('empty_before_fail'):
        # an empty entry inside a list ("a,,b"), followed by a failure-rated name: what comes after the empty entry still counts
        cat = c['empty_before_fail']
        fails = [x for x in cls[cat]['fail'] if not x.startswith('gss-')]
        lists[cat] = [x for x in lists[cat] if x not in cls[cat]['fail']] + ['', rng.choice(fails)]
    if c['probes'] and not any(x in gen.PROBE_KEX for x in lists['kex']):
        pass  # no probing possible with this list: fine
    if 'kex-strict-s-v00@openssh.com' not in lists['kex'] and rng.random() < .5:
        lists['kex'].append('kex-strict-s-v00@openssh.com')
    script = {'banner': 'SSH-2.0-OpenSSH_9.%d' % rng.randint(0, 9), 'kex': audit.sym_kex(lists['kex'], lists['key'], lists['enc'], lists['mac']),
              'hostkeys': gen.hostkeys_for(lists['key']) if c['probes'] else {}, 'gex': {'sizes': [3072, 4096], 'style': 'strict'} if c['probes'] else None}
    viol, counters = [], {}
    if c.get('gss_fail'):
        # the only failure of the peer is a GSS key exchange (looked up through its wildcard entry), with '/' and '+' in the mechanism suffix
        fams = [x for x in audit.db_names()['kex'] if x.startswith('gss-') and x.endswith('-*') and gen.classify_db('kex', x) == 'fail']
        lists['kex'] = [x for x in lists['kex'] if x not in cls['kex']['fail']] + [audit.gss_instance(rng, rng.choice(fams), forced=c['gss_fail'])]
    if c.get('dup'):
        # the same names listed twice
        for cat in lists:
            lists[cat] = lists[cat] + lists[cat][:2]
    if c.get('empty_before_fail'):
        counters['empty_entry_before_failure'] = 1
    if c.get('fail_shape'):
        counters['single_failure_by_entry_shape'] = 1
    if c.get('empty_after'):
        counters['empty_entry_after_findings'] = 1
    if c.get('gss_fail'):
        counters['gss_only_failure'] = 1
    check_optsets(script, viol, counters)
    return viol, counters


def run_client(c):
    """Client audits (-c): the status follows the worst finding of the report of that same run, also for clients whose lists differ per direction (a failure-rated cipher or MAC in one direction only)."""
    rng = random.Random(c['seed'])
    cls = by_class(audit.db_names())
    pick = lambda cat, klass: rng.choice([x for x in cls[cat][klass] if not x.startswith('gss-')])   # noqa: E731
    k = audit.sym_kex([pick('kex', 'clean'), 'kex-strict-c-v00@openssh.com'], [pick('key', 'clean')], [pick('enc', 'clean')], [pick('mac', 'clean')])
    cat = c['cat']
    bad = pick(cat, c['level'])
    if c['which'] in ('sc', 'both'):
        k[cat + '_sc'] = k[cat + '_sc'] + [bad]
    if c['which'] in ('cs', 'both'):
        k[cat + '_cs'] = k[cat + '_cs'] + [bad]
    viol, counters = [], {'client_audits': 0}
    for name, args in (('plain', ['-n']), ('json', ['-j'])):
        r, p = audit.audit_client({'banner': 'SSH-2.0-OpenSSH_9.%d' % rng.randint(0, 9), 'kex': k}, args)
        if p.count('connected') == 0:
            return None, {'why': 'client peer could not connect'}
        if r.status not in (0, 2, 3):
            viol.append(_v('C02/audit-failed:status%s:client' % r.status, 'audit of a well-formed client did not complete', out=(r.out + r.err)[-300:]))
            continue
        counters['client_audits'] += 1
        counters['status_checks'] = counters.get('status_checks', 0) + 1
        if name == 'json':
            try:
                doc = json.loads(r.out)
            except ValueError:
                viol.append(_v('C02/json-unparsable:client', 'stdout of -j is not one JSON document', out=r.out[:200]))
                continue
            levels = {lvl for (_c, _n, lvl, _t) in report.json_findings(doc) if lvl in ('fail', 'warn')}
        else:
            lv, extra, _rep = text_levels(r.out)
            levels = lv | extra
        if want_status(levels) != r.status:
            viol.append(_v('C02/status-wrong:client:%s:got%s-want%s:%s-only-in-%s' % (name, r.status, want_status(levels), c['level'], c['which']), 'exit status of a client audit differs from the worst finding level of its own report', status=r.status, levels=sorted(levels), which=c['which'], name=bad))
    return viol, counters


def run_ssh1(c):
    script = {'banner': 'SSH-1.5-OpenSSH_1.2.3', 'proto': 1, 'ssh1': {'cmask': c['cmask'], 'amask': c['amask']}}
    viol, counters = [], {}
    check_optsets(script, viol, counters, tag=':ssh1')
    return viol, counters


def run_ssh199(c):
    rng = random.Random(c['seed'])
    cls = by_class(audit.db_names())
    if c['clean']:
        lists = {cat: rng.sample([x for x in cls[cat]['clean'] if not gen.is_terrapin_shape(x) and not x.startswith('gss-')], 1) for cat in ('kex', 'key', 'enc', 'mac')}
    else:
        lists = {cat: rng.sample([x for x in cls[cat]['warn'] if not x.startswith('gss-')] or cls[cat]['clean'], 1) for cat in ('kex', 'key', 'enc', 'mac')}
    script = {'banner': 'SSH-1.99-OpenSSH_3.%d' % rng.randint(0, 9) + (' build\x07tag' if c.get('np') else ''), 'kex': audit.sym_kex(lists['kex'], lists['key'], lists['enc'], lists['mac']), 'hostkeys': {}, 'gex': None}
    viol, counters = [], {}
    if c.get('np'):
        counters['banners_with_two_findings'] = 1
    if c.get('opts'):
        counters['ssh199_under_protocol_options'] = 1
    check_optsets(script, viol, counters, tag=':ssh1.99' + ('+nonprintable' if c.get('np') else '') + (''.join(c.get('opts', []))), pre=c.get('opts', ()))
    return viol, counters


def run_nonascii(c):
    rng = random.Random(c['seed'])
    cls = by_class(audit.db_names())
    lists = {cat: rng.sample([x for x in cls[cat]['clean'] if not gen.is_terrapin_shape(x) and not x.startswith('gss-')], 1) for cat in ('kex', 'key', 'enc', 'mac')}
    script = {'banner': 'SSH-2.0-Srv\x7f_1 caf\udce9', 'kex': audit.sym_kex(lists['kex'], lists['key'], lists['enc'], lists['mac']), 'hostkeys': {}, 'gex': None}
    viol, counters = [], {}
    check_optsets(script, viol, counters, tag=':nonascii')
    return viol, counters


def broken_script(how, rng):
    k = audit.sym_kex(['curve25519-sha256'], ['ssh-ed25519'], ['aes128-ctr'], ['hmac-sha2-256'])
    s = {'banner': 'SSH-2.0-OpenSSH_9.0', 'kex': k, 'hostkeys': {}, 'gex': None, 'linger': 6}
    kp = wire.packet(wire.kexinit_payload(k))
    if how == 'silent':
        s['faults'] = [{'at': 'banner', 'op': 'stall_before'}]
    elif how == 'close-before-banner':
        s['faults'] = [{'at': 'banner', 'op': 'close_before'}]
    elif how == 'close-after-banner':
        s['faults'] = [{'at': 'kexinit', 'op': 'close_before'}]
    elif how == 'stall-after-banner':
        s['faults'] = [{'at': 'kexinit', 'op': 'stall_before'}]
    elif how == 'garbage-banner':
        s['faults'] = [{'at': 'banner', 'op': 'random', 'seed': rng.randrange(1000), 'len': 64}, {'at': 'banner', 'op': 'then_close'}]
    elif how == 'truncated-kexinit':
        s['faults'] = [{'at': 'kexinit', 'op': 'truncate', 'offset': rng.randrange(6, len(kp) - 1), 'then': 'close'}]
    elif how == 'wrong-first-packet':
        s['faults'] = [{'at': 'kexinit', 'op': 'patch', 'offset': 5, 'hex': '15'}]
    elif how in ('payload-cut-in-namelists', 'namelist-overruns-payload', 'payload-only-cookie'):
        # correctly framed packets of type 20 whose payload is not a complete KEXINIT
        payload = wire.kexinit_payload(k)
        if how == 'payload-cut-in-namelists':
            cut = payload[:17 + rng.randrange(6, 60)]
        elif how == 'payload-only-cookie':
            cut = payload[:17]
        else:
            offs = {}
            wire.kexinit_payload(k, offs)
            f = rng.choice(['key', 'enc_sc', 'mac_cs', 'comp_sc'])
            cut = payload[:offs[f]] + wire.u32(len(payload)) + payload[offs[f] + 4:]
        s['faults'] = [{'at': 'kexinit', 'op': 'replace', 'hex': wire.packet(cut).hex()}]
    elif how == 'bad-block-size':
        s['faults'] = [{'at': 'kexinit', 'op': 'patch', 'offset': 0, 'hex': wire.u32(len(kp) - 4 + 3).hex()}]
    return s


def run_broken(c):
    rng = random.Random(c['seed'])
    viol, counters = [], {'broken_handshakes': 0}
    for name, args in (('plain', ['-n']), ('json', ['-j']), ('batch', ['-n', '-b'])):
        if c['how'] == 'refused':
            from harness import peer as peermod
            p = peermod.ServerPeer({'banner': 'x', 'kex': {}}, listen=False)
            r = runner.run_cli(['--skip-rate-test', '-t', '1'] + args + [p.target()], timeout=40)
            p.stop(0.1)
        else:
            script = broken_script(c['how'], rng)
            if c.get('banner'):
                script['banner'] = c['banner']
                counters['broken_after_rated_banner'] = counters.get('broken_after_rated_banner', 0) + 1
            r, p = audit.audit_server(script, ['-t', '1'] + args, timeout=40)
        if r.timed_out:
            return None, {'why': 'watchdog fired on broken handshake %s' % c['how']}
        counters['broken_handshakes'] += 1
        counters['status_checks'] = counters.get('status_checks', 0) + 1
        if r.status in (0, 2, 3):
            viol.append(_v('C02/incomplete-audit-looks-complete:%s%s:%s' % (c['how'], ':rated-banner' if c.get('banner') else '', name), 'an audit that obtained no algorithm lists exited with a findings status', status=r.status, out=r.out[-400:]))
        if name == 'json':
            head = r.out.strip().split('\n')[0] if r.out.strip() else ''
            try:
                doc = json.loads(head) if head.startswith('{') else None
            except ValueError:
                doc = None
            if doc is not None and any(doc.get(k) for k in ('kex', 'key', 'enc', 'mac', 'aut')):
                viol.append(_v('C02/incomplete-audit-prints-algorithm-lists:json', 'JSON output of a failed handshake contains algorithm lists', lists={k: doc.get(k) for k in ('kex', 'key', 'enc', 'mac', 'aut')}, how=c['how']))
        else:
            rep = report.parse_text(r.out)
            if rep.has_alg_lines():
                viol.append(_v('C02/incomplete-audit-prints-algorithm-lines:' + name, 'text output of a failed handshake contains algorithm lines', how=c['how'], out=r.out[-400:]))
    return viol, counters


def run_policy(c):
    from props import c06
    rng = random.Random(c['seed'])
    lists = {'kex': ['curve25519-sha256', 'diffie-hellman-group16-sha512', 'kex-strict-s-v00@openssh.com'], 'key': ['ssh-ed25519', 'rsa-sha2-512'],
             'enc': ['aes256-gcm@openssh.com', 'aes128-ctr'], 'mac': ['hmac-sha2-256-etm@openssh.com', 'hmac-sha2-512']}
    pol = c06.base_pol(rng.randrange(4))
    for f in lists:
        pol[f] = list(lists[f])
    peer_lists = {f: list(v) for f, v in lists.items()}
    if c['drift']:
        f = rng.choice(list(lists))
        peer_lists[f] = peer_lists[f] + ['3des-cbc' if f == 'enc' else 'hmac-md5' if f == 'mac' else 'ssh-dss' if f == 'key' else 'diffie-hellman-group1-sha1']
    d = runner.scratch_dir('c02')
    try:
        pf = os.path.join(d, 'p.txt')
        with open(pf, 'w') as fh:
            fh.write(c06.policy_text(pol, 'c02'))
        script = {'banner': 'SSH-2.0-OpenSSH_9.2', 'kex': audit.sym_kex(peer_lists['kex'], peer_lists['key'], peer_lists['enc'], peer_lists['mac']),
                  'hostkeys': gen.hostkeys_for(peer_lists['key']), 'gex': None}
        r, p = audit.audit_server(script, ['-P', pf] + (['-j'] if c['json'] else ['-n']), cwd=d)
    finally:
        runner.cleanup(d)
    viol, counters = [], {'policy_runs': 1, 'status_checks': 1}
    verdict = None
    if c['json']:
        try:
            verdict = 'passed' if json.loads(r.out)['passed'] else 'failed'
        except (ValueError, KeyError):
            pass
    else:
        verdict = report.parse_policy_text(r.out)['result']
    if verdict not in ('passed', 'failed'):
        viol.append(_v('C02/policy-no-verdict', 'policy audit printed no verdict', out=r.out[-300:], status=r.status))
    elif (verdict == 'passed') != (r.status == 0) or (verdict == 'failed') != (r.status == 3):
        viol.append(_v('C02/policy-status-vs-verdict:%s:%s' % (verdict, r.status), 'policy audit exit status does not match its verdict', verdict=verdict, status=r.status))
    return viol, counters


def run_builtin_policy(c):
    from ssh_audit.builtin_policies import BUILTIN_POLICIES
    from props import c17
    script = c17.synth_script(BUILTIN_POLICIES[c['policy']], False)
    if c['drift']:
        script['kex']['enc_sc'] = script['kex']['enc_sc'] + ['3des-cbc']
        script['kex']['enc_cs'] = script['kex']['enc_cs'] + ['3des-cbc']
    r, p = audit.audit_server(script, ['-P', c['policy']] + (['-j'] if c['json'] else ['-n']))
    viol, counters = [], {'policy_runs': 1, 'status_checks': 1, 'builtin_policy_runs': 1, 'outdated_builtin_policy_runs': 1 if c['outdated'] else 0}
    verdict = None
    if c['json']:
        try:
            verdict = 'passed' if json.loads(r.out)['passed'] else 'failed'
        except (ValueError, KeyError):
            pass
    else:
        verdict = report.parse_policy_text(r.out)['result']
    if verdict not in ('passed', 'failed'):
        viol.append(_v('C02/policy-no-verdict', 'policy audit printed no verdict', out=r.out[-300:], status=r.status))
    elif (verdict == 'passed') != (r.status == 0) or (verdict == 'failed') != (r.status == 3):
        viol.append(_v('C02/policy-status-vs-verdict:%s:%s%s' % (verdict, r.status, ':outdated-builtin' if c['outdated'] else ''), 'policy audit exit status does not match its verdict', verdict=verdict, status=r.status, policy=c['policy']))
    return viol, counters


def run_multi_status(c):
    """-T run in plain text: exit status == 1 if a target could not be audited, else the worst level among all finding lines of the whole report."""
    viol, counters = [], {}
    targets = [multi.Target('refused', kind='refused') if n == '!refused' else multi.Target(n, multi.healthy(n)) for n in c['targets']]
    try:
        res = multi.run_multi(targets, c['threads'], 'text', tmo=2, timeout=150)
    finally:
        for t in targets:
            t.stop()
    r = res['run']
    if r.timed_out:
        return None, {'why': 'watchdog'}
    levels = set()
    for block in res['raw_blocks'] or [r.out]:
        lv, _x, _rep = text_levels(block)
        levels |= lv
    want = 1 if '!refused' in c['targets'] else want_status(levels)
    counters['status_checks'] = 1
    counters['multi_target_runs'] = 1
    if levels:
        counters['multi_target_levels_seen'] = len(levels)
    if r.status != want:
        viol.append(_v('C02/multi-target-status:got%s-want%s' % (r.status, want), 'exit status of a targets-file run is not that of the worst finding its report shows (a target that could not be audited counts as a connection error)',
                       targets=c['targets'], threads=c['threads'], levels=sorted(levels), got=r.status))
    return viol, counters


def run_case(c):
    fn = {'multi': run_multi_status, 'client': run_client, 'builtin-policy': run_builtin_policy, 'mix': run_mix, 'ssh1': run_ssh1, 'ssh199': run_ssh199, 'nonascii-banner': run_nonascii, 'broken': run_broken, 'policy': run_policy}[c['kind']]
    viol, counters = fn(c)
    if viol is None:
        return {'verdict': 'inconclusive', 'why': counters.get('why')}
    seen, uniq = set(), []
    for v in viol:
        if v['key'] not in seen:
            seen.add(v['key'])
            uniq.append(v)
    return {'violations': uniq, 'counters': counters, 'nontrivial': counters.get('status_checks', 0) > 0, 'sample': {'case': c, 'observed': counters}, 'sample_kind': c['kind']}
