"""C08 - one bad target never costs the others their results."""
import itertools
import json
import random

from harness import audit, multi, peer as peermod, report, runner
from props import c07

ID = 'C08'
LEVEL = 'fault_enumeration'
SHARDS = 16
THREADS = 3
RULE = ('one case = one real `-T file --threads k [-j]` run over a list of 2-4 targets mixing healthy scripted servers with one (thorough: also two) failing target(s) of each failure archetype: unresolvable name, refused connection, '
        'silent after accept, closes before / after its banner, garbage banner, bad block size, SSH-1 bad CRC, truncated KEXINIT, wrong first packet, garbage in the probe phase - in every list position, with --threads 1, 2, n and 32, in text and JSON.  '
        'Oracle: number of result blocks (text: 80-dash separated; JSON: array elements) == number of targets; every healthy target\'s block equals its single-target result; exit status == highest ranked single-target status '
        '(255 > 1 > 3 > 2 > 0), also for lists holding one target of each status class (connection error, failure, warning, good) in every order of completion; with -j the whole stdout is one JSON array.  Non-trivial: the failing target was reached (peer log / resolver error) and >= 1 healthy block was compared; distinct = distinct (target list, threads, format)')
REQUIRED = {'rank_order_runs': 24, 'multi_runs': 60, 'healthy_blocks_compared': 100, 'failure_reached': 50, 'status_rank_checks': 60, 'json_runs': 20}
ASSUMPTIONS = ['-v / -d are not part of the quantifier (they print progress lines by design)',
               'per-target statuses for the rank oracle come from single-target runs of the same scripted servers']
MANIFEST = {
    'text': 'Fault enumeration over failure archetypes x list position x worker-thread count x output format: each combination is executed as a real multi-target run; block count, per-target results, exit-status rank and JSON well-formedness are checked.',
    'note': 'Relational oracle against single-target executions; trusts the block splitter (80-dash rule) and json.loads.',
    'technique': 'fault injection into multi-target runs with boundary monitoring (block structure, status rank) and a relational oracle against single-target executions',
}
FAILS = ['badname', 'unresolvable', 'refused', 'refused-top-port', 'silent', 'early-close', 'close-before-banner', 'garbage-banner', 'bad-block-size', 'all-padding', 'probe-all-padding', 'bad-crc', 'truncated-kexinit', 'wrong-first-packet', 'probe-garbage', 'probe-wrong-type', 'probe-malformed-reply']
HEALTHY3 = ['clean', 'terrapin', 'rsa1024']
RANK = {0: 0, 2: 1, 3: 2, 1: 3, 255: 4}
_fail_status = {}


def cases(tier, seed):
    rng = random.Random(seed * 61 + 8)
    cs = []
    for f in FAILS:
        for pos in range(3):
            for th in ((1, 32) if tier == 'quick' else (1, 2, 3, 32)):
                for fmt in ('text', 'json'):
                    if tier == 'quick' and (pos + th + (fmt == 'json')) % 2 == (FAILS.index(f) % 2) and f not in ('bad-crc', 'bad-block-size', 'probe-wrong-type', 'probe-malformed-reply'):
                        continue
                    hs = rng.sample(HEALTHY3, 2)
                    names = hs[:pos] + ['!' + f] + hs[pos:]
                    cs.append({'targets': names, 'threads': th, 'fmt': fmt})
    if tier == 'thorough':
        for f1, f2 in itertools.combinations(FAILS, 2):
            for fmt in ('text', 'json'):
                for th in (1, 3):
                    names = ['clean', '!' + f1, 'terrapin', '!' + f2]
                    rng.shuffle(names)
                    cs.append({'targets': names, 'threads': th, 'fmt': fmt})
    for fmt in ('text', 'json'):
        cs.append({'targets': ['clean', 'terrapin', 'rsa1024'], 'threads': 2, 'fmt': fmt})
        # ... and with -v, which adds progress messages: stdout of a JSON run stays one array (-d is left out: debug output is requested text on stdout, in JSON runs too)
        if fmt == 'json':
            for th in (1, 2, 32):
                cs.append({'targets': ['clean', 'terrapin', 'rsa1024'], 'threads': th, 'fmt': fmt, 'opts': ['-v']})
    # rank of the statuses: targets of all four status classes (connection error 1 > failure 3 > warning 2 > good 0) in every order of completion (--threads 1: completion order == file order)
    classes = ['!refused', 'rsa1024', 'warn-only', 'good-only']
    i = 0
    for n in ((3,) if tier == 'quick' else (2, 3, 4)):
        for perm in itertools.permutations(classes, n):
            i += 1
            cs.append({'targets': list(perm), 'threads': 1, 'fmt': 'json' if i % 3 == 0 else 'text', 'rank': True})
    for perm in (rng.sample(list(itertools.permutations(classes, 4)), 6) if tier == 'quick' else []):
        cs.append({'targets': list(perm), 'threads': 1, 'fmt': 'text', 'rank': True})
    for perm in itertools.permutations(['!early-close', 'warn-only', 'terrapin'], 3):
        cs.append({'targets': list(perm), 'threads': 1, 'fmt': 'text', 'rank': True})
    # the custom modulus test (-g) over a targets file: servers with and without a usable group exchange, in every position
    for i, perm in enumerate([['gex2048', 'no-probes', 'gex2048-openssh'], ['no-probes', 'gex2048', 'gex1024'], ['gex2048', 'gex2048-openssh', 'no-probes'], ['no-probes'], ['gex2048', 'warn-only']]):
        for th in ((1, 32) if tier == 'thorough' else ([1, 32][i % 2],)):
            cs.append({'kind': 'gexopt', 'targets': perm, 'threads': th, 'bits': 2048})
    # an internal error (status 255) outranks everything, wherever it completes
    for perm in itertools.permutations(['!badname', '!refused', 'warn-only'], 3):
        cs.append({'targets': list(perm), 'threads': 1, 'fmt': 'text', 'rank': True})
    for pair in (['!badname', 'good-only'], ['good-only', '!badname'], ['!badname']):
        cs.append({'targets': pair, 'threads': 2, 'fmt': 'text', 'rank': True})
    return cs


def _v(key, what, **d):
    return {'key': key, 'what': what, 'detail': d}


def make_target(name):
    if not name.startswith('!'):
        return multi.Target(name, multi.healthy(name))
    f = name[1:]
    if f in ('unresolvable', 'refused', 'badname', 'refused-top-port'):
        return multi.Target(f, kind=f)
    return multi.Target(f, multi.failing(f))


def fail_status(f, fmt):
    """Exit status of a single-target run against this failure archetype."""
    key = (f, fmt)
    if key in _fail_status:
        return _fail_status[key]
    t = make_target('!' + f)
    try:
        r = runner.run_cli(['--skip-rate-test', '-t', '2'] + (['-j'] if fmt == 'json' else ['-n']) + [t.spec], timeout=90)
    finally:
        t.stop()
    _fail_status[key] = r.status
    return r.status


def run_gexopt(c):
    """-T together with the custom modulus test (-g): every target that serves a group exchange gets its result line, targets without a usable group exchange cost the others nothing, the status is the highest ranked one (0 here)."""
    names = c['targets']
    targets = [make_target(n) for n in names]
    viol, counters = [], {'multi_runs': 1, 'runs_with_the_modulus_test_option': 1}
    try:
        res = multi.run_multi(targets, c['threads'], 'text', tmo=2, timeout=150, extra=['-g', str(c['bits'])])
        r = res['run']
        if r.timed_out:
            return {'verdict': 'inconclusive', 'why': 'watchdog'}
        from harness import peer as peermod
        # a server answers the request (bits, bits, bits) or refuses it, by its moduli policy; one result line per group-exchange algorithm it lists (two in these archetypes)
        with_gex = sum(1 for t in targets if t.script and t.script.get('gex') and peermod.moduli_answer(t.script['gex'], c['bits'], c['bits'], c['bits']) is not None)
        counters['targets_answering_the_modulus_test'] = with_gex
        lines = [l for l in r.out.splitlines() if '-->' in l and 'diffie-hellman-group-exchange' in l]
        counters['modulus_result_lines'] = len(lines)
        if 'Traceback' in r.out + r.err or r.status not in (0, 1, 2, 3):
            viol.append(_v('C08/internal-error:modulus-test-option', 'a multi-target run with the modulus test option ended in a traceback / the internal error status', status=r.status, tail=(r.out + r.err)[-400:], targets=names))
        elif r.status != 0:
            viol.append(_v('C08/status-wrong:modulus-test-option', 'every target is fine, yet the status of the run is not 0', status=r.status, targets=names))
        if len(lines) != 2 * with_gex:
            viol.append(_v('C08/result-lost:modulus-test-option', 'a target that serves group exchange did not get its result lines', got=len(lines), want=2 * with_gex, targets=names, threads=c['threads']))
    finally:
        for t in targets:
            t.stop()
    return {'violations': viol, 'counters': counters, 'nontrivial': True, 'sample': {'case': c, 'lines': lines[:4], 'status': r.status}, 'sample_kind': 'gexopt'}


def run_case(c):
    if c.get('kind') == 'gexopt':
        return run_gexopt(c)
    names = c['targets']
    targets = [make_target(n) for n in names]
    viol, counters = [], {'multi_runs': 1}
    fails = [n[1:] for n in names if n.startswith('!')]
    try:
        res = multi.run_multi(targets, c['threads'], c['fmt'], tmo=2, timeout=150, extra=c.get('opts', ()))
        if c.get('opts'):
            counters['runs_with_progress_options'] = 1
        r = res['run']
        if r.timed_out:
            return {'verdict': 'inconclusive', 'why': 'watchdog'}
        if c['fmt'] == 'json':
            counters['json_runs'] = 1
        reached = 0
        for t, n in zip(targets, names):
            if n.startswith('!'):
                if t.kind == 'peer' and (t.peer.count('fault') > 0 or t.peer.count('accept') > 0):
                    reached += 1
                elif t.kind in ('refused', 'unresolvable', 'badname', 'refused-top-port'):
                    reached += 1
        counters['failure_reached'] = reached
        tag = '+'.join(sorted(fails)) or 'none'
        # ------------------------------------------------------------ expected status
        singles = []
        for n in names:
            if n.startswith('!'):
                singles.append(fail_status(n[1:], c['fmt']))
            else:
                singles.append(c07.single(n, c['fmt'])[0])
        want_status = max(singles, key=lambda s: RANK.get(s, 5))
        counters['status_rank_checks'] = 1
        if c.get('rank'):
            counters['rank_order_runs'] = 1
        if r.status != want_status:
            viol.append(_v('C08/status-rank:%s:got%s-want%s' % (tag, r.status, want_status), 'exit status of the run is not the highest ranked status among its targets', singles=singles, got=r.status, out_tail=(r.out + r.err)[-300:]))
        # ------------------------------------------------------------ structure
        if c['fmt'] == 'json':
            if res.get('docs') is None:
                # mechanism: is the only thing that breaks the array the error text of failed targets?  Two texts exist: the bare '[exception] ...' line of a target that could not be audited
                # (possibly after an incomplete JSON object), and the "An exception occurred while scanning <target>:" + traceback block of the worker's last-resort handler.
                import re as _re
                mechs, arr, only_error_text = [], None, False
                stripped = r.out
                if 'An exception occurred while scanning' in stripped:
                    stripped, n_ = _re.subn(r'An exception occurred while scanning [^\n]*:\nTraceback \(most recent call last\):\n(?:[ \t][^\n]*\n|[^\n{\[\]]*\n)*?(?=\s*(?:, |\]|\{))', 'null', stripped)
                    if n_:
                        mechs.append('worker-exception-text-in-array')
                if 'packet checksum CRC32 mismatch' in stripped:
                    # the SSH-1 checksum error is written to stdout by the worker thread itself, wherever the main thread happens to be (the recorded finding error-printed-outside-block): take the line out;
                    # that target's own element is then empty
                    stripped, n_ = _re.subn(r'(\x1b\[[0-9;]*m)?\[exception\] packet checksum CRC32 mismatch\.(\x1b\[0m)?\n?', '', stripped)
                    if n_:
                        mechs.append('__crc__')
                        stripped = _re.sub(r'^\[\s*,', '[null,', stripped)
                        stripped = _re.sub(r',\s*(?=,)', ', null', stripped)
                        stripped = _re.sub(r',\s*\]\s*$', ', null]', stripped)
                        stripped = _re.sub(r'^\[\s*\]\s*$', '[null]', stripped)
                if '[exception]' in stripped:
                    stripped, n_ = _re.subn(r'(\x1b\[[0-9;]*m)?\[exception\][^\n\x1b]*(\x1b\[0m)?', 'null', stripped)
                    if n_:
                        mechs.append('error-text-of-failed-target-in-array')
                for cand in (stripped, _re.sub(r'\}\s*null', '}', stripped)):   # second form: error line printed after a JSON object inside one element: '{...}\n[exception] ...'
                    try:
                        a_ = json.loads(cand)
                    except ValueError:
                        continue
                    if isinstance(a_, list):
                        arr, only_error_text = a_, bool(mechs)
                        break
                if not only_error_text:
                    mechs = ['other:' + tag]
                if '__crc__' in mechs:
                    mechs.remove('__crc__')
                    viol.append(_v('C08/error-printed-outside-block:bad-crc', 'the error of a target is printed directly by the worker thread, not as that target\'s block', lines=[l for l in r.out.split('\n') if 'CRC32 mismatch' in l][:2]))
                for mech in mechs:
                    viol.append(_v('C08/json-not-one-array:%s' % mech, 'stdout of a multi-target -j run is not a single JSON array', err=res.get('json_error'), out=r.out[:200] + ' ... ' + r.out[-300:]))
                if only_error_text and len(arr) != len(names):
                    viol.append(_v('C08/block-count:json:%s' % tag, 'number of array elements (error texts counted) differs from the number of targets', got=len(arr), want=len(names)))
            else:
                n_el = len(res['raw_docs'])
                if n_el != len(names):
                    viol.append(_v('C08/block-count:json:%s' % tag, 'number of array elements differs from the number of targets', got=n_el, want=len(names)))
        else:
            # The SSH-1 checksum error is written to stdout by the worker thread itself, wherever the main thread happens to be: take it out before looking at the block structure and report it on its own.
            crc_lines = [l for l in r.out.split('\n') if 'packet checksum CRC32 mismatch' in l]
            if crc_lines:
                cleaned = '\n'.join(l for l in r.out.split('\n') if 'packet checksum CRC32 mismatch' not in l)
                raw = report.split_blocks(cleaned)
                res['raw_blocks'] = raw
                res['blocks'] = {}
                for b in raw:
                    res['blocks'].setdefault(multi.target_of_block(b), []).append(b)
                viol.append(_v('C08/error-printed-outside-block:bad-crc', 'the error of a target is printed directly by the worker thread, not as that target\'s block', lines=crc_lines[:2]))
            nb = len(res['raw_blocks'])
            if nb != len(names):
                viol.append(_v('C08/block-count:text:%s' % tag, 'number of result blocks differs from the number of targets', got=nb, want=len(names), out=r.out[-400:]))
            empty = [b for b in res['raw_blocks'] if not report.strip_ansi(b).strip()]
            if empty and not (crc_lines and len(empty) == len(crc_lines)):
                viol.append(_v('C08/empty-block:%s' % tag, 'a target produced an empty result block', n=len(empty)))
            if r.err.strip():
                viol.append(_v('C08/stderr-output:%s' % tag, 'unexpected stderr output', err=r.err[-300:]))
        # ------------------------------------------------------------ healthy targets keep their results
        for t, n in zip(targets, names):
            if n.startswith('!'):
                continue
            want_status_t, want = c07.single(n, c['fmt'])
            counters['healthy_blocks_compared'] = counters.get('healthy_blocks_compared', 0) + 1
            if c['fmt'] == 'json':
                if res.get('docs') is None:
                    continue
                docs = res['docs'].get(t.spec) or []
                ok = False
                for doc in docs:
                    dd = dict(doc)
                    dd.pop('target', None)
                    if dd == want:
                        ok = True
                if not ok:
                    viol.append(_v('C08/healthy-result-lost:json:%s' % tag, 'a healthy target\'s JSON entry is missing or differs from its single-target result', target=n, found=len(docs)))
            else:
                blocks = res['blocks'].get(t.spec) or []
                if not any(multi.normalize_text(b) == want for b in blocks):
                    viol.append(_v('C08/healthy-result-lost:text:%s' % tag, 'a healthy target\'s report block is missing or differs from its single-target report', target=n, found=len(blocks), out_tail=r.out[-300:]))
    finally:
        for t in targets:
            t.stop()
    seen, uniq = set(), []
    for v in viol:
        if v['key'] not in seen:
            seen.add(v['key'])
            uniq.append(v)
    return {'violations': uniq, 'counters': counters, 'nontrivial': counters.get('healthy_blocks_compared', 0) > 0 and (counters.get('failure_reached', 0) > 0 or not fails),
            'sample': {'case': c, 'status': r.status, 'singles': singles, 'blocks': len(res['raw_blocks']) if res.get('raw_blocks') is not None else None}, 'sample_kind': tag + c['fmt']}
