"""C11 - host-key sizes, CA details and fingerprints are measured and rated correctly."""
import itertools
import json
import random

from harness import audit, gen, report, wire

ID = 'C11'
LEVEL = 'exploration'
SHARDS = 16
THREADS = 2
RULE = ('one case = one scripted server presenting chosen public-key blobs during probing, audited for real and compared with a 4096-bit baseline audit of the same name list: RSA moduli 512..16384 in steps of 64 '
        '(quick: every 4th size plus every size within 512 bits of the 2048/3072 thresholds; thorough: all 249 sizes), all 15 ordered arrangements of the RSA-family names, Ed25519/Ed448 keys, RSA and Ed25519 host certificates '
        'signed by RSA (1024..8192), Ed25519 and ECDSA (P-256/384/521) CAs; text, verbose and JSON.  Oracle: reported size == bit length of the presented modulus (independent blob parser), CA type/size likewise, fingerprints == '
        'hashlib SHA-256/MD5 of the presented blob (one RSA-family entry, none for certificates), differential threshold oracle on the notes relative to the baseline.  Non-trivial: probe answered and a size or fingerprint compared; '
        'distinct = distinct (blob set, name list, rendering)')
REQUIRED = {'first_probe_failed_midway': 4, 'two_certificates_one_server': 5, 'certificate_field_variants': 10, 'probes_refused_after_small_key': 6, 'cert_beside_plain_rsa': 10, 'plain_beside_cert_checks': 20, 'sizes_compared': 40, 'fingerprints_compared': 40, 'threshold_checks': 40, 'below_2048': 5, 'warn_band': 5, 'ca_checks': 8, 'json_runs': 10}
ASSUMPTIONS = ['moduli are multiples of 64 bits as the quantifier says; sizes that are not a multiple of 16 bits form a separate sub-family run in the thorough tier only (the tool measures whole bytes)',
               'threshold oracle is differential (notes at size B minus notes at 4096 bits for the same names), so note wording is not frozen',
               'for certificates both the host key and the CA key are rated; equal warning texts may be merged by the tool, so ">= 1 extra warning" is demanded, not a count']
MANIFEST = {
    'text': 'Exploration: every RSA size of the stated grid (thorough) is presented by a scripted server in real probes and the reported size, CA details, fingerprints and size rating are compared with an independent parse/hash of the presented blob and with a differential threshold oracle.',
    'note': 'Ground truth is the blob the peer sent (parsed by harness/wire.py, hashed by hashlib); trusts report parsers.',
    'technique': 'boundary monitoring of real probes against the peer\'s ground truth; differential threshold oracle (size B vs 4096-bit baseline)',
}
RSA_FAMILY = ['ssh-rsa', 'rsa-sha2-256', 'rsa-sha2-512']
ARRANGEMENTS = [list(p) for n in (1, 2, 3) for p in itertools.permutations(RSA_FAMILY, n)]


# legitimate variations of the certificate fields around the CA key (ssh-keygen -h without -n gives no principals; -I "" an empty key id; -O options; long validity)
CERT_VARIANTS = [{}, {'principals': []}, {'key_id': ''}, {'principals': ['a.example', 'b.example', 'c.example'], 'key_id': 'k' * 200}, {'serial': 2 ** 63, 'valid_after': 1, 'valid_before': 2 ** 40},
                 {'extensions_hex': (b'\x00\x00\x00\x15permit-X11-forwarding\x00\x00\x00\x00').hex(), 'principals': []}, {'key_id': '', 'principals': []}, {'pubkey_zero': 1}, {'pubkey_zero': 5}]


def cases(tier, seed):
    rng = random.Random(seed * 37 + 11)
    sizes = list(range(512, 16385, 64))
    if tier == 'quick':
        sizes = [s for i, s in enumerate(sizes) if i % 4 == seed % 4 or abs(s - 2048) <= 256 or abs(s - 3072) <= 256 or s in (512, 16384)]
    cs = []
    for i, b in enumerate(sizes):
        cs.append({'kind': 'rsa', 'bits': b, 'names': ARRANGEMENTS[(i + seed) % len(ARRANGEMENTS)], 'render': ['text', 'json', 'verbose'][i % 3], 'with_ed': i % 2 == 0})
    for i, arr in enumerate(ARRANGEMENTS):
        for b in ([1024, 2048, 3072] if tier == 'quick' else [1024, 1984, 2048, 2112, 3008, 3072, 4096]):
            cs.append({'kind': 'rsa', 'bits': b, 'names': arr, 'render': ['text', 'json'][i % 2], 'with_ed': False})
    cas = [{'type': 'rsa', 'bits': b} for b in (1024, 2048, 3072, 4096, 8192)] + [{'type': 'ed25519'}] + [{'type': 'ecdsa', 'bits': b} for b in (256, 384, 521)]
    cas += [{'type': 'ecdsa', 'bits': b, 'compressed': True} for b in ((256, 384, 521) if tier == 'thorough' else ((256, 384, 521)[seed % 3],))]   # RFC 5656: point compression MAY be used
    if tier == 'thorough':
        cas += [{'type': 'rsa', 'bits': b} for b in (1536, 1984, 2112, 2560, 3008, 3136, 6144)]
    hosts = [('rsa-cert', b) for b in ((1024, 2048, 3072, 4096) if tier == 'quick' else (1024, 1536, 2048, 2560, 3072, 4096, 8192))] + [('ed25519-cert', 256)]
    for i, ((ht, hb), ca) in enumerate(itertools.product(hosts, cas)):
        if tier == 'quick' and (i + i // len(cas)) % 2 != seed % 2:
            continue
        cs.append({'kind': 'cert', 'host': ht, 'bits': hb, 'ca': ca, 'render': ['text', 'json'][i % 2], 'var': CERT_VARIANTS[i % len(CERT_VARIANTS)]})
    for t in ('ed25519', 'ed448'):
        for rnd in ('text', 'json', 'verbose'):
            cs.append({'kind': 'fixed', 'type': t, 'render': rnd})
    # the server presents a small RSA key (or certificate) and then refuses the probes for its other host-key types: whatever was noted for the RSA key stays with the RSA key
    for i, (first, bits) in enumerate([('rsa', 1024), ('rsa', 2048), ('rsa-cert', 1024), ('rsa-cert', 2048), ('rsa', 3072)]):
        for rnd in (('text', 'json') if tier == 'thorough' else (['json', 'text'][i % 2],)):
            cs.append({'kind': 'partial', 'first': first, 'bits': bits, 'render': rnd})
    # the first probe of the RSA family fails in the middle (the server answers the key-exchange init with a disconnect message, a malformed reply, or nothing and keeps the connection open); the next RSA name is probed on a fresh connection and measures the key
    for i, (how, bits) in enumerate([('disconnect', 3072), ('malformed', 2048), ('stall', 1024), ('disconnect', 1024), ('malformed', 4096), ('close', 2048)]):
        for rnd in (('text', 'json') if tier == 'thorough' else (['json', 'text'][i % 2],)):
            cs.append({'kind': 'failfirst', 'how': how, 'bits': bits, 'render': rnd})
    # two certificates on one server, signed by CAs of the same type but different sizes (and an Ed25519 CA beside an RSA CA): each certificate reports its own CA
    for i, (ca1, ca2) in enumerate([(4096, 1024), (1024, 4096), (2048, 3072), (3072, 2048), (4096, 'ed25519'), ('ed25519', 1024)]):
        for rnd in (('text', 'json') if tier == 'thorough' else (['json', 'text'][i % 2],)):
            cs.append({'kind': 'twocerts', 'ca_rsa_cert': ca1, 'ca_ed_cert': ca2, 'render': rnd})
    # plain RSA names and RSA certificates under each of their three names side by side, with different keys: fingerprints are those of the plain key, sizes those of each key
    CERTS = ['ssh-rsa-cert-v01@openssh.com', 'rsa-sha2-256-cert-v01@openssh.com', 'rsa-sha2-512-cert-v01@openssh.com']
    i = 0
    for ncert in (1, 2, 3):
        for certs in itertools.combinations(CERTS, ncert):
            for plain in ([[], ['ssh-rsa'], ['rsa-sha2-512', 'rsa-sha2-256', 'ssh-rsa']] if tier == 'thorough' else [[[], ['rsa-sha2-256']][i % 2], ['rsa-sha2-512', 'rsa-sha2-256', 'ssh-rsa']]):
                for rnd in (('text', 'json', 'verbose') if tier == 'thorough' else (['json', 'text', 'json', 'verbose'][i % 4],)):
                    i += 1
                    cs.append({'kind': 'certmix', 'certs': list(certs), 'plain': plain, 'render': rnd, 'plain_bits': [2048, 3072, 4096][i % 3], 'cert_bits': [3072, 4096, 2048][i % 3], 'certs_first': i % 2 == 0})
    # the largest and smallest keys again with debug output on (whatever is traced about a key must cope with its size)
    for i, b in enumerate([16384, 14336, 1024, 512] if tier == 'quick' else [16384, 15360, 14336, 14272, 12288, 8192, 4096, 3072, 2048, 1024, 512]):
        cs.append({'kind': 'rsa', 'bits': b, 'names': ARRANGEMENTS[i % len(ARRANGEMENTS)], 'render': 'debug', 'with_ed': i % 2 == 0})
    for i, (ht, hb, cab) in enumerate([('rsa-cert', 16384, 4096), ('rsa-cert', 4096, 16384), ('ed25519-cert', 256, 16384)]):
        cs.append({'kind': 'cert', 'host': ht, 'bits': hb, 'ca': {'type': 'rsa', 'bits': cab}, 'render': 'debug', 'var': CERT_VARIANTS[i]})
    # SSH_MSG_DEBUG messages (allowed at any time) in front of every key-exchange reply: the key behind them is measured all the same
    for i, (b, n) in enumerate([(1024, 2), (2048, 3), (3072, 1), (1536, 5)] if tier == 'quick' else [(b, n) for b in (1024, 1536, 2048, 2560, 3072, 4096) for n in (1, 2, 3, 5, 20)]):
        cs.append({'kind': 'rsa', 'bits': b, 'names': ARRANGEMENTS[i % len(ARRANGEMENTS)], 'render': ['text', 'json'][i % 2], 'with_ed': i % 2 == 0, 'chatter': n})
    if tier == 'thorough':
        for b in list(range(2000, 2101, 8)) + list(range(3020, 3121, 8)) + [2047, 2049, 3071, 3073, 1023, 4095]:
            cs.append({'kind': 'rsa', 'bits': b, 'names': ['ssh-rsa'], 'render': 'text', 'with_ed': False, 'odd': True})
    return cs


def _v(key, what, **d):
    return {'key': key, 'what': what, 'detail': d}


ARGS = {'text': ['-n'], 'json': ['-j'], 'verbose': ['-n', '-v'], 'debug': ['-n', '-d']}


def observe(script, render, names):
    """Returns (status, {name: {'bits','ca_bits','ca_type','notes':{level:[..]}}}, fingerprints [(type, alg, hash)])"""
    r, p = audit.audit_server(script, ARGS[render])
    if r.status not in (0, 2, 3):
        return r, None, None, p
    res, fps = {}, []
    if render == 'json':
        doc = json.loads(r.out)
        for e in doc.get('key') or []:
            res[e['algorithm']] = {'bits': e.get('keysize'), 'ca_bits': e.get('casize'), 'ca_type': e.get('ca_algorithm'),
                                   'notes': {lvl: sorted((e.get('notes') or {}).get(lvl, [])) for lvl in ('fail', 'warn', 'info')}}
        for f in doc.get('fingerprints') or []:
            fps.append((f['hostkey'], f['hash_alg'], f['hash']))
    else:
        rep = report.parse_text(r.out, verbose=(render == 'verbose'))
        for a in rep.algs['key']:
            res[a.name] = {'bits': a.bits, 'ca_bits': a.ca_bits, 'ca_type': a.ca_type, 'notes': {lvl: sorted(t for l, t in a.notes if l == lvl and t) for lvl in ('fail', 'warn', 'info')}}
        for kt, h, _note in rep.fin:
            alg, _, val = h.partition(':')
            fps.append((kt, alg, val))
    return r, res, fps, p


def extra(notes, base):
    out = {}
    for lvl in ('fail', 'warn', 'info'):
        b = list(base[lvl])
        ex = []
        for t in notes[lvl]:
            if t in b:
                b.remove(t)
            else:
                ex.append(t)
        out[lvl] = ex
        out[lvl + '_lost'] = b
    return out


def baseline_clean(base, viol, counters):
    """The differential oracle compares with a baseline audit (4096-bit RSA keys and CAs, fixed-size keys): that baseline itself must carry no size note at all (absolute part of the oracle)."""
    import re
    for n, o in base.items():
        if n == 'ssh-dss':
            continue
        counters['baseline_entries_checked'] = counters.get('baseline_entries_checked', 0) + 1
        bad = [t for t in o['notes']['fail'] + o['notes']['warn'] if 'modulus' in t or re.search(r'\d+-bit', t)]
        if bad:
            viol.append(_v('C11/size-note-on-large-or-fixed-size-key:' + n, 'a 4096-bit or fixed-size key (4096-bit RSA CA) carries a size note', notes=bad))


def band(bits):
    return 'fail' if bits < 2048 else 'warn' if bits < 3072 else 'none'


def check_fps(fps, blobs, render, viol, counters, tag):
    # ECDSA/DSS fingerprints are only listed by some renderings (verbose text, JSON); they are not what this oracle is about
    fps = [f for f in fps if not (f[0].startswith('ecdsa-') or f[0] == 'ssh-dss')]
    """blobs: {report type name: blob} expected to have fingerprints; others must have none."""
    got = {}
    for kt, alg, val in fps:
        got.setdefault(kt, {}).setdefault(alg, []).append(val)
    for kt, blob in blobs.items():
        sha, md5 = wire.fingerprints(blob)
        counters['fingerprints_compared'] = counters.get('fingerprints_compared', 0) + 1
        g = got.get(kt, {})
        if g.get('SHA256') != [sha[7:]]:
            viol.append(_v('C11/fingerprint-sha256:%s:%s' % (kt, tag), 'SHA-256 fingerprint missing, duplicated or different from the hash of the presented blob', got=g.get('SHA256'), want=sha[7:], render=render))
        if render in ('json', 'verbose'):
            want = md5[4:]
            if g.get('MD5') != [want]:
                viol.append(_v('C11/fingerprint-md5:%s:%s' % (kt, tag), 'MD5 fingerprint missing, duplicated or different', got=g.get('MD5'), want=want, render=render))
    for kt in got:
        if kt not in blobs:
            viol.append(_v('C11/fingerprint-unexpected:%s:%s' % ('cert' if '-cert-' in kt else 'rsa-family-duplicate' if kt in RSA_FAMILY else 'other', tag), 'a fingerprint entry that should not exist', hostkey=kt, render=render))


def run_rsa(c):
    names = list(c['names'])
    keys = names + (['ssh-ed25519'] if c['with_ed'] else [])
    viol, counters = [], {}

    def script(bits):
        hk = {n: {'type': 'rsa', 'bits': bits} for n in RSA_FAMILY}
        hk['ssh-ed25519'] = {'type': 'ed25519'}
        return {'banner': 'SSH-2.0-OpenSSH_9.1', 'kex': audit.sym_kex(['curve25519-sha256'], keys, ['aes128-ctr'], ['hmac-sha2-256']), 'hostkeys': hk, 'gex': None, 'reply_debug': c.get('chatter', 0)}
    r, res, fps, p = observe(script(c['bits']), c['render'], names)
    rb, base, _f, _p = observe(script(4096), c['render'], names)
    if res is None or base is None:
        viol.append(_v('C11/audit-failed:status%s' % (r.status if res is None else rb.status), 'audit did not complete', out=(r if res is None else rb).out[-300:]))
        return viol, counters
    baseline_clean(base, viol, counters)
    if p.count('hostkey-presented') == 0:
        return None, {'why': 'no host key probe reached the peer'}
    true_bits = wire.blob_facts(wire.rsa_blob(c['bits']))['bits']
    assert true_bits == c['bits']
    odd = 'not-multiple-of-16-bits' if c['bits'] % 16 else 'grid'
    b = band(c['bits'])
    counters['below_2048'] = 1 if b == 'fail' else 0
    counters['warn_band'] = 1 if b == 'warn' else 0
    if c['render'] == 'json':
        counters['json_runs'] = 1
    for n in names:
        o = res.get(n)
        if o is None:
            viol.append(_v('C11/key-missing', 'advertised host key absent from the report', name=n))
            continue
        counters['sizes_compared'] = counters.get('sizes_compared', 0) + 1
        if o['bits'] != c['bits']:
            viol.append(_v('C11/size-wrong:%s:%s' % ('rsa', odd), 'reported RSA key size differs from the bit length of the presented modulus', name=n, got=o['bits'], want=c['bits'], names=names))
        ex = extra(o['notes'], base[n]['notes'])
        counters['threshold_checks'] = counters.get('threshold_checks', 0) + 1
        want = {'fail': 1 if b == 'fail' else 0, 'warn': 1 if b == 'warn' else 0, 'info': 0}
        gotc = {lvl: len(ex[lvl]) for lvl in ('fail', 'warn', 'info')}
        # the 4096-bit baseline of ssh-rsa etc. has no size notes; anything lost relative to it is wrong too
        if gotc != want or ex['fail_lost'] or ex['warn_lost']:
            viol.append(_v('C11/size-rating-wrong:%s:%s:%s' % ('rsa', b, odd), 'size notes do not follow the 2048/3072 thresholds', name=n, bits=c['bits'], extra=ex, names=names, render=c['render']))
    blobs = {'ssh-rsa': wire.rsa_blob(c['bits'])}
    if c['with_ed']:
        blobs['ssh-ed25519'] = wire.ed25519_blob()
    check_fps(fps, blobs, c['render'], viol, counters, 'rsa')
    return viol, counters


def run_cert(c):
    ht = c['host']
    name = 'ssh-rsa-cert-v01@openssh.com' if ht == 'rsa-cert' else 'ssh-ed25519-cert-v01@openssh.com'
    viol, counters = [], {}

    def script(bits, ca):
        spec = dict({'type': ht, 'bits': bits, 'ca': ca}, **(c.get('var') or {}))
        kexname = ['curve25519-sha256', 'ecdh-sha2-nistp256', 'diffie-hellman-group14-sha256'][(c['bits'] // 512 + len(c['ca']['type'])) % 3]
        return {'banner': 'SSH-2.0-OpenSSH_9.1', 'kex': audit.sym_kex([kexname], [name, 'ssh-ed25519', 'ssh-ed448', 'ecdsa-sha2-nistp256'], ['aes128-ctr'], ['hmac-sha2-256']),
                'hostkeys': {name: spec, 'ssh-ed25519': {'type': 'ed25519'}, 'ssh-ed448': {'type': 'ed448'}, 'ecdsa-sha2-nistp256': {'type': 'ecdsa', 'bits': 256}}, 'gex': None}
    r, res, fps, p = observe(script(c['bits'], c['ca']), c['render'], [name])
    rb, base, _f, _p = observe(script(4096, {'type': 'rsa', 'bits': 4096}), c['render'], [name])
    if res is None or base is None:
        viol.append(_v('C11/audit-failed:status%s' % (r.status if res is None else rb.status), 'audit did not complete', out=(r if res is None else rb).out[-300:]))
        return viol, counters
    baseline_clean(base, viol, counters)
    facts = wire.blob_facts(wire.key_blob(dict({'type': ht, 'bits': c['bits'], 'ca': c['ca']}, **(c.get('var') or {}))))
    if c.get('var'):
        counters['certificate_field_variants'] = 1
    o = res.get(name)
    if o is None:
        viol.append(_v('C11/key-missing', 'advertised host key absent from the report', name=name))
        return viol, counters
    counters['ca_checks'] = 1
    if c['render'] == 'json':
        counters['json_runs'] = 1
    want_ca_type = facts['ca_type']
    shown_ca = 'RSA' if want_ca_type in RSA_FAMILY else want_ca_type
    got_type = o['ca_type']
    if c['render'] == 'json':
        type_ok = got_type == want_ca_type
    else:
        type_ok = got_type == shown_ca
    if not type_ok:
        viol.append(_v('C11/ca-type-wrong:' + c['ca']['type'], 'reported CA key type differs from the signing key in the presented certificate', got=got_type, want=want_ca_type))
    if o['ca_bits'] != facts['ca_bits']:
        how = c['ca']['type'] + (':p%d-reported-%s' % (facts['ca_bits'], o['ca_bits']) if c['ca']['type'] == 'ecdsa' else '')
        viol.append(_v('C11/ca-size-wrong:' + how, 'reported CA key size differs from the presented CA key', got=o['ca_bits'], want=facts['ca_bits']))
    counters['sizes_compared'] = 1
    if (ht == 'rsa-cert' or c['render'] != 'json') and o['bits'] != facts['bits']:
        viol.append(_v('C11/size-wrong:cert:grid', 'reported certificate key size differs from the presented key', got=o['bits'], want=facts['bits']))
    ex = extra(o['notes'], base[name]['notes'])
    counters['threshold_checks'] = 1
    hb = band(c['bits']) if ht == 'rsa-cert' else 'none'
    cb = band(c['ca']['bits']) if c['ca']['type'] == 'rsa' else 'none'
    counters['below_2048'] = 1 if 'fail' in (hb, cb) else 0
    counters['warn_band'] = 1 if 'warn' in (hb, cb) else 0
    want_fail = ('fail' in (hb, cb)) or c['ca']['type'] == 'ecdsa'
    want_warn = 'warn' in (hb, cb)
    n_fail_want = (hb == 'fail') + (cb == 'fail') + (c['ca']['type'] == 'ecdsa')
    if (len(ex['fail']) != n_fail_want) or (bool(ex['warn']) != want_warn) or ex['info'] or ex['fail_lost'] or ex['warn_lost']:
        viol.append(_v('C11/size-rating-wrong:cert:host-%s:ca-%s%s' % (hb, cb, ':ecdsa-ca' if c['ca']['type'] == 'ecdsa' else ''), 'certificate notes do not follow the thresholds for host key and CA key',
                       host_bits=c['bits'], ca=c['ca'], extra=ex, render=c['render']))
    check_fps(fps, {'ssh-ed25519': wire.ed25519_blob(), 'ssh-ed448': wire.ed448_blob()}, c['render'], viol, counters, 'cert')
    # the plain keys presented beside the certificate are not certificates: no CA details, and the same notes as beside the baseline certificate
    for plain in ('ssh-ed25519', 'ssh-ed448', 'ecdsa-sha2-nistp256'):
        po, pb = res.get(plain), base.get(plain)
        if po is None or pb is None:
            viol.append(_v('C11/key-missing', 'advertised host key absent from the report', name=plain))
            continue
        counters['plain_beside_cert_checks'] = counters.get('plain_beside_cert_checks', 0) + 1
        if po['ca_bits'] is not None or po['ca_type'] is not None:
            viol.append(_v('C11/ca-reported-for-plain-key:' + plain, 'a non-certificate host key is reported with CA details', name=plain, got=[po['ca_type'], po['ca_bits']], cert=name, ca=c['ca']))
        if po['notes'] != pb['notes']:
            viol.append(_v('C11/plain-key-notes-depend-on-certificate:' + plain, 'the notes of a plain host key change with the certificate presented beside it', name=plain, got=po['notes'], want=pb['notes']))
    return viol, counters


def run_certmix(c):
    names = (c['certs'] + c['plain']) if c['certs_first'] else (c['plain'] + c['certs'])
    keys = names + ['ssh-ed25519']
    hk = {n: {'type': 'rsa', 'bits': c['plain_bits']} for n in RSA_FAMILY}
    for n in c['certs']:
        hk[n] = {'type': 'rsa-cert', 'bits': c['cert_bits'], 'ca': {'type': 'rsa', 'bits': 4096}}
    hk['ssh-ed25519'] = {'type': 'ed25519'}
    script = {'banner': 'SSH-2.0-OpenSSH_9.1', 'kex': audit.sym_kex(['curve25519-sha256'], keys, ['aes128-ctr'], ['hmac-sha2-256']), 'hostkeys': hk, 'gex': None}
    r, res, fps, p = observe(script, c['render'], names)
    viol, counters = [], {}
    if res is None:
        viol.append(_v('C11/audit-failed:status%s' % r.status, 'audit did not complete', out=r.out[-300:]))
        return viol, counters
    if c['render'] == 'json':
        counters['json_runs'] = 1
    counters['cert_beside_plain_rsa'] = 1
    for n in names:
        o = res.get(n)
        if o is None:
            viol.append(_v('C11/key-missing', 'advertised host key absent from the report', name=n))
            continue
        counters['sizes_compared'] = counters.get('sizes_compared', 0) + 1
        want = c['cert_bits'] if n in c['certs'] else c['plain_bits']
        if o['bits'] != want:
            viol.append(_v('C11/size-wrong:%s-beside-%s' % ('cert' if n in c['certs'] else 'plain', 'plain' if n in c['certs'] else 'cert'), 'reported key size differs from the key presented under that name', name=n, got=o['bits'], want=want, names=names))
        want_ca = 4096 if n in c['certs'] else None
        if o['ca_bits'] != want_ca:
            viol.append(_v('C11/ca-size-wrong:%s-beside-%s' % ('cert' if n in c['certs'] else 'plain', 'plain' if n in c['certs'] else 'cert'), 'reported CA size differs from the certificate presented under that name (none for plain keys)', name=n, got=o['ca_bits'], want=want_ca))
    blobs = {'ssh-ed25519': wire.ed25519_blob()}
    if c['plain']:
        blobs['ssh-rsa'] = wire.rsa_blob(c['plain_bits'])
    check_fps(fps, blobs, c['render'], viol, counters, 'certmix')
    return viol, counters


def run_twocerts(c):
    def ca(x):
        return {'type': 'ed25519'} if x == 'ed25519' else {'type': 'rsa', 'bits': x}
    names = ['ssh-rsa-cert-v01@openssh.com', 'ssh-ed25519-cert-v01@openssh.com']
    hk = {names[0]: {'type': 'rsa-cert', 'bits': 3072, 'ca': ca(c['ca_rsa_cert'])}, names[1]: {'type': 'ed25519-cert', 'ca': ca(c['ca_ed_cert'])}}
    script = {'banner': 'SSH-2.0-OpenSSH_9.1', 'kex': audit.sym_kex(['curve25519-sha256'], names, ['aes128-ctr'], ['hmac-sha2-256']), 'hostkeys': hk, 'gex': None}
    r, res, fps, p = observe(script, c['render'], names)
    viol, counters = [], {}
    if res is None:
        viol.append(_v('C11/audit-failed:status%s' % r.status, 'audit did not complete', out=r.out[-300:]))
        return viol, counters
    if c['render'] == 'json':
        counters['json_runs'] = 1
    counters['two_certificates_one_server'] = 1
    for n, want in ((names[0], c['ca_rsa_cert']), (names[1], c['ca_ed_cert'])):
        o = res.get(n)
        if o is None:
            viol.append(_v('C11/key-missing', 'advertised host key absent from the report', name=n))
            continue
        counters['sizes_compared'] = counters.get('sizes_compared', 0) + 1
        want_bits = 256 if want == 'ed25519' else want
        if o['ca_bits'] != want_bits:
            viol.append(_v('C11/ca-size-wrong:second-certificate', 'reported CA key size differs from the CA of the certificate presented under that name', name=n, got=o['ca_bits'], want=want_bits, other_ca=[c['ca_rsa_cert'], c['ca_ed_cert']]))
        small = [t for t in o['notes']['fail'] if 'CA key modulus' in t]
        warn2k = [t for t in o['notes']['warn'] if '2048-bit modulus' in t]
        want_fail = want != 'ed25519' and want < 2048
        want_warn = want != 'ed25519' and 2048 <= want < 3072
        if bool(small) != want_fail or bool(warn2k) != want_warn:
            viol.append(_v('C11/ca-rating-wrong:second-certificate', 'the CA size notes of a certificate do not follow its own CA', name=n, ca=want, notes=o['notes']))
    return viol, counters


def run_partial(c):
    first_names = ['rsa-sha2-512', 'ssh-rsa'] if c['first'] == 'rsa' else ['ssh-rsa-cert-v01@openssh.com']
    others = ['ssh-ed25519', 'ssh-ed448', 'ecdsa-sha2-nistp256']
    # ... and a refused type that is rated with the thresholds of the key (or CA) presented just before it: an RSA certificate name after a plain RSA key, an Ed25519 certificate after an RSA certificate with a small CA
    others = others + (['rsa-sha2-256-cert-v01@openssh.com'] if c['first'] == 'rsa' else ['ssh-ed25519-cert-v01@openssh.com'])
    viol, counters = [], {}

    def script(bits):
        hk = {n: ({'type': 'rsa', 'bits': bits} if c['first'] == 'rsa' else {'type': 'rsa-cert', 'bits': 4096, 'ca': {'type': 'rsa', 'bits': bits}}) for n in first_names}
        # no entry for the other types: the peer closes the probe connection after the KEXDH_INIT for them
        return {'banner': 'SSH-2.0-OpenSSH_9.1', 'kex': audit.sym_kex(['curve25519-sha256'], first_names + others, ['aes128-ctr'], ['hmac-sha2-256']), 'hostkeys': hk, 'hostkey_default': None, 'gex': None}
    r, res, fps, p = observe(script(c['bits']), c['render'], first_names + others)
    rb, base, _f, _p = observe(script(4096), c['render'], first_names + others)
    if res is None or base is None:
        viol.append(_v('C11/audit-failed:status%s' % (r.status if res is None else rb.status), 'audit did not complete', out=(r if res is None else rb).out[-300:]))
        return viol, counters
    baseline_clean(base, viol, counters)
    if p.count('hostkey-refused') == 0:
        return viol, counters
    counters['probes_refused_after_small_key'] = p.count('hostkey-refused')
    if c['render'] == 'json':
        counters['json_runs'] = 1
    for n in others:
        o, b = res.get(n), base.get(n)
        if o is None or b is None:
            viol.append(_v('C11/key-missing', 'advertised host key absent from the report', name=n))
            continue
        if o['bits'] is not None or o['ca_bits'] is not None:
            viol.append(_v('C11/size-for-unmeasured-key', 'a host key whose probe was refused is reported with a size', name=n, got=[o['bits'], o['ca_bits']]))
        if o['notes'] != b['notes']:
            viol.append(_v('C11/notes-of-unmeasured-key-depend-on-other-key', 'the notes of a host key whose probe was refused change with the size of the RSA key presented before it', name=n, got=o['notes'], want=b['notes'], rsa_bits=c['bits']))
    return viol, counters


def run_failfirst(c):
    names = ['ssh-rsa', 'rsa-sha2-256', 'rsa-sha2-512', 'ssh-ed25519']
    ops = {'disconnect': {'op': 'replace', 'hex': wire.packet(bytes([wire.MSG_DISCONNECT]) + wire.u32(2) + wire.string('no') + wire.string('')).hex()},
           'malformed': {'op': 'replace', 'hex': wire.packet(wire.kex_reply(31, wire.string('ssh-rsa'))).hex()}, 'stall': {'op': 'stall_before'}, 'close': {'op': 'close_before'}}
    script = {'banner': 'SSH-2.0-OpenSSH_9.1', 'kex': audit.sym_kex(['curve25519-sha256'], names, ['aes128-ctr'], ['hmac-sha2-256']),
              'hostkeys': {n: {'type': 'rsa', 'bits': c['bits']} for n in names[:3]} | {'ssh-ed25519': {'type': 'ed25519'}}, 'gex': None, 'linger': 3,
              'faults': [dict(ops[c['how']], conn=1, at='kexreply')]}
    r, res, fps, p = observe(script, c['render'], names)
    viol, counters = [], {}
    if res is None:
        viol.append(_v('C11/audit-failed:status%s' % r.status, 'audit did not complete', out=r.out[-300:]))
        return viol, counters
    if p.count('fault') == 0:
        return None, {'why': 'the fault on the first probe was not applied'}
    counters['first_probe_failed_midway'] = 1
    counters['sizes_compared'] = 1
    for n in names[:3]:
        o = res.get(n)
        if o is None:
            viol.append(_v('C11/key-missing', 'advertised host key absent from the report', name=n))
        elif c['how'] in ('stall', 'close'):
            # no reply at all to the first RSA probe: the tool gives the RSA family up, so no RSA key was ever presented - then nothing may be claimed about it
            if o['bits'] not in (None,) or any(kt in ('ssh-rsa', 'rsa-sha2-256', 'rsa-sha2-512') for kt, _a, _h in fps):
                viol.append(_v('C11/size-for-unmeasured-key:rsa-family', 'a size or a fingerprint is reported for an RSA host key that was never presented', name=n, bits=o['bits'], fingerprints=[f for f in fps if f[0].startswith(('ssh-rsa', 'rsa-sha2'))][:2]))
                break
        elif o['bits'] != c['bits']:
            viol.append(_v('C11/size-wrong:after-failed-probe:' + c['how'], 'the RSA key presented to the probe that followed a failed one is reported with another size (or none)', name=n, got=o['bits'], want=c['bits']))
    want_band = band(c['bits'])
    o = res.get('rsa-sha2-512')
    if o is not None and o['bits'] == c['bits'] and c['how'] not in ('stall', 'close'):
        sized = [t for t in o['notes']['fail'] + o['notes']['warn'] if 'modulus' in t]
        if (want_band == 'none') != (not sized):
            viol.append(_v('C11/size-rating-wrong:after-failed-probe', 'size notes of the key measured after a failed probe do not follow its size', bits=c['bits'], notes=sized))
    e = res.get('ssh-ed25519')
    if e is not None and (e['bits'] not in (None, 256) or any('modulus' in t for t in e['notes']['fail'] + e['notes']['warn'])):
        viol.append(_v('C11/size-note-on-fixed-size-key:ed25519', 'a fixed-size key carries a size note', notes=e['notes'], bits=e['bits']))
    return viol, counters


def run_fixed(c):
    t = c['type']
    name = 'ssh-' + t
    script = {'banner': 'SSH-2.0-OpenSSH_9.1', 'kex': audit.sym_kex(['curve25519-sha256'], [name], ['aes128-ctr'], ['hmac-sha2-256']), 'hostkeys': {name: {'type': t}}, 'gex': None}
    r, res, fps, p = observe(script, c['render'], [name])
    viol, counters = [], {}
    if res is None:
        viol.append(_v('C11/audit-failed:status%s' % r.status, 'audit did not complete', out=r.out[-300:]))
        return viol, counters
    if c['render'] == 'json':
        counters['json_runs'] = 1
    blob = wire.key_blob({'type': t})
    check_fps(fps, {name: blob}, c['render'], viol, counters, t)
    o = res.get(name) or {'notes': {'fail': [], 'warn': [], 'info': []}}
    if any('modulus' in x for x in o['notes']['fail'] + o['notes']['warn']):
        viol.append(_v('C11/size-note-on-fixed-size-key:' + t, 'a fixed-size key carries a size note', notes=o['notes']))
    return viol, counters


def run_case(c):
    fn = {'rsa': run_rsa, 'cert': run_cert, 'fixed': run_fixed, 'certmix': run_certmix, 'partial': run_partial, 'failfirst': run_failfirst, 'twocerts': run_twocerts}[c['kind']]
    viol, counters = fn(c)
    if viol is None:
        return {'verdict': 'inconclusive', 'why': counters.get('why')}
    seen, uniq = set(), []
    for v in viol:
        if v['key'] not in seen:
            seen.add(v['key'])
            uniq.append(v)
    return {'violations': uniq, 'counters': counters, 'nontrivial': counters.get('fingerprints_compared', 0) + counters.get('sizes_compared', 0) + counters.get('probes_refused_after_small_key', 0) > 0,
            'sample': {'case': c, 'observed': counters}, 'sample_kind': c['kind'] + ':' + c['render']}
