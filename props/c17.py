"""C17 - the tool's knowledge tables agree with each other."""
import re
import sys

from harness import audit, report

ID = 'C17'
LEVEL = 'exploration'
SHARDS = 16
EXHAUSTIVE = True
RULE = ('exhaustive over the live tables of the tree under test: one case per rating-database entry category (shape + broken-primitive rule), one per '
        'cross-reference table (built-in policies, host-key probe table, probe key-exchange tables captured from the running probe functions with a trace hook, '
        'denial-of-service tables), and one executed standard audit per built-in policy against a peer synthesised exactly from that policy; '
        'a case is non-trivial when it inspected at least one table entry or completed its audit; distinct = distinct tables / policies')
REQUIRED = {'policy_audits_after_weak_json': 1, 'policy_audits_after_weak': 3, 'table_digest_checks': 3, 'db_entries': 300, 'policy_names_checked': 500, 'probe_names_checked': 20, 'dheat_names_checked': 30, 'policy_audits': 40, 'locals_captured': 2}
ASSUMPTIONS = ['broken-primitive tokens are the ones the statement lists (md5, sha1, arcfour/rc4, des/3des, none, dss, 1024-bit groups, NIST curves, ripemd, blowfish, cast, idea, rijndael, seed, serpent); calibrated to hold with 0 exceptions on the pinned tree',
               'all built-in policies are hardening policies (their names start with "Hardened")']
MANIFEST = {
    'text': 'Exploration, exhaustive over the finite tables as they stand in the current tree: every cross-reference is looked up in the live rating database, every entry is shape-checked, and each of the built-in policies is exercised by a real audit of a peer configured exactly per that policy.',
    'note': 'Reads the live modules of /repo (no frozen copy); local probe tables are captured with sys.settrace while the real probe function runs; the audits trust the scripted peer and the report parser.',
    'technique': 'invariant evaluation over live data structures at a quiescent point (after import) plus trace-hook capture of function-local tables and end-to-end audits',
}
BROKEN = re.compile(r'md5|sha1(?![0-9])|sha-1|arcfour|rc4|(?<![a-z0-9])3?des(?![a-z])|^none$|dss|group1-|nistp|nistk|nistb|nistt|ripemd|blowfish|cast128|idea|rijndael|seed-|serpent'
                    r'|1\.2\.840\.10045\.3\.1\.|1\.3\.132\.0\.(?!10$)'
                    r'|dh1(?![0-9])|ecdh(?:256|384|521)', re.I)   # any spelling / letter case: the database also holds camel-case names (kexAlgoDH14SHA1, ...)


def cases(tier, seed):
    from ssh_audit.builtin_policies import BUILTIN_POLICIES
    cs = [{'kind': 'db', 'cat': c} for c in ('kex', 'key', 'enc', 'mac')]
    cs.append({'kind': 'ssh1db'})
    cs.append({'kind': 'policies-xref'})
    cs.append({'kind': 'probe-xref'})
    cs.append({'kind': 'dheat-xref'})
    for name in BUILTIN_POLICIES:
        cs.append({'kind': 'policy-audit', 'policy': name})
        pol = BUILTIN_POLICIES[name]
        if pol['server_policy'] and (pol.get('dh_modulus_sizes') or any('group-exchange' in k for k in (pol.get('kex') or []))):
            # the same peer selecting its group-exchange moduli the way OpenSSH does (2048-bit fallback for requests nothing on file fits): the audit then goes through its OpenSSH follow-up probe and note
            cs.append({'kind': 'policy-audit', 'policy': name, 'gex_style': 'openssh'})
        if pol['server_policy'] and any('-cert-' in k and not k.startswith('sk-') for k in (pol.get('optional_host_keys') or [])):
            # the same peer also offering the certificate host keys the policy permits (with the key and CA sizes the policy lists)
            cs.append({'kind': 'policy-audit', 'policy': name, 'optional': True})
    # the same, but as the second target of a run whose first target has weak keys, moduli and Terrapin exposure (tables must agree after scans too, not only after import)
    server_pols = [n for n, p_ in BUILTIN_POLICIES.items() if p_['server_policy']]
    for i, name in enumerate(server_pols):
        if tier == 'quick' and i % 8 != seed % 8:
            continue
        cs.append({'kind': 'policy-audit-after-weak', 'policy': name, 'json': (i // 8) % 2 == 1 if tier == 'quick' else i % 2 == 1})   # text and JSON rendering alternate
    return cs


def _v(key, what, **d):
    return {'key': key, 'what': what, 'detail': d}


def shape_problems(entry):
    if not isinstance(entry, list) or not 1 <= len(entry) <= 4:
        return 'entry is not a list of 1..4 lists'
    for i, part in enumerate(entry):
        if not isinstance(part, list):
            return 'part %d is not a list' % i
        for x in part:
            if not (isinstance(x, str) or (x is None)):
                return 'part %d holds a %s' % (i, type(x).__name__)
    if len(entry[0]) > 3:
        return 'more than 3 version fields'
    return None


def run_db(c):
    from ssh_audit.ssh2_kexdb import SSH2_KexDB
    viol, n = [], 0
    for name, e in SSH2_KexDB.MASTER_DB[c['cat']].items():
        n += 1
        sp = shape_problems(e)
        if sp:
            viol.append(_v('C17/shape:%s:%s' % (c['cat'], name), 'database entry has not the documented shape: ' + sp, entry=repr(e)[:200]))
            continue
        if BROKEN.search(name) and not (len(e) > 1 and len(e[1]) > 0):
            viol.append(_v('C17/broken-primitive-without-failure:%s:%s' % (c['cat'], name), 'name contains a primitive branded broken elsewhere but carries no failure', entry=repr(e)[:200]))
    return viol, {'db_entries': n}


def run_ssh1db(c):
    from ssh_audit.ssh1_kexdb import SSH1_KexDB
    from ssh_audit.ssh1 import SSH1
    viol, n = [], 0
    for cat, d in SSH1_KexDB.MASTER_DB.items():
        for name, e in d.items():
            n += 1
            sp = shape_problems(e)
            if sp:
                viol.append(_v('C17/shape:ssh1-%s:%s' % (cat, name), 'SSH-1 database entry has not the documented shape: ' + sp))
    for nme in SSH1.CIPHERS:
        if nme not in SSH1_KexDB.MASTER_DB['enc']:
            viol.append(_v('C17/ssh1-cipher-unknown:' + nme, 'SSH-1 cipher name has no database entry'))
    for nme in SSH1.AUTHS[1:]:
        if nme not in SSH1_KexDB.MASTER_DB['aut']:
            viol.append(_v('C17/ssh1-auth-unknown:' + nme, 'SSH-1 authentication name has no database entry'))
    return viol, {'db_entries': n}


def run_policies(c):
    from ssh_audit.builtin_policies import BUILTIN_POLICIES
    from ssh_audit.ssh2_kexdb import SSH2_KexDB
    db = SSH2_KexDB.MASTER_DB
    viol, n = [], 0
    fields = (('host_keys', 'key'), ('optional_host_keys', 'key'), ('kex', 'kex'), ('ciphers', 'enc'), ('macs', 'mac'))
    for pname, pol in BUILTIN_POLICIES.items():
        if not pname.startswith('Hardened'):
            viol.append(_v('C17/policy-not-hardening:' + pname, 'built-in policy is not a hardening policy (check assumption)'))
        for f, cat in fields:
            for nme in pol.get(f) or []:
                n += 1
                if nme not in db[cat]:
                    viol.append(_v('C17/policy-name-unknown:%s:%s' % (cat, nme), 'built-in policy names an algorithm the rating database does not know', policy=pname, field=f))
                    continue
                e = db[cat][nme]
                if len(e) > 1 and len(e[1]) > 0:
                    viol.append(_v('C17/policy-permits-failure:%s:%s' % (cat, nme), 'built-in hardening policy requires/permits an algorithm rated as failure', policy=pname, field=f, fails=e[1]))
        for nme in (pol.get('hostkey_sizes') or {}):
            n += 1
            if nme not in db['key']:
                viol.append(_v('C17/policy-name-unknown:key:' + nme, 'hostkey_sizes names an unknown host key type', policy=pname))
        for nme in (pol.get('dh_modulus_sizes') or {}):
            n += 1
            if nme not in db['kex']:
                viol.append(_v('C17/policy-name-unknown:kex:' + nme, 'dh_modulus_sizes names an unknown key exchange', policy=pname))
    return viol, {'policy_names_checked': n, 'policies': len(BUILTIN_POLICIES)}


def capture_locals(fn, args, want):
    """Run fn(*args) under a trace hook and return the first value of the local variable `want` seen in its frame."""
    got = {}
    code = fn.__code__

    def tracer(frame, event, arg):
        if frame.f_code is code:
            def local(frame, event, arg):
                if want in frame.f_locals and want not in got:
                    got[want] = dict(frame.f_locals[want])
                return local
            return local
        return None
    sys.settrace(tracer)
    try:
        fn(*args)
    except Exception:
        pass
    finally:
        sys.settrace(None)
    return got.get(want)


def run_probe(c):
    from ssh_audit.hostkeytest import HostKeyTest
    from ssh_audit.gextest import GEXTest
    from ssh_audit.ssh2_kexdb import SSH2_KexDB
    from ssh_audit.ssh2_kex import SSH2_Kex
    from ssh_audit.ssh2_kexparty import SSH2_KexParty
    from ssh_audit.outputbuffer import OutputBuffer
    from ssh_audit.ssh_socket import SSH_Socket
    db = SSH2_KexDB.MASTER_DB
    viol, n, cap = [], 0, 0
    for nme in list(HostKeyTest.HOST_KEY_TYPES) + list(HostKeyTest.RSA_FAMILY):
        n += 1
        if nme not in db['key']:
            viol.append(_v('C17/probe-hostkey-unknown:' + nme, 'host-key probe table names a type the rating database does not know'))
    out = OutputBuffer()
    party = SSH2_KexParty([], [], [], [])
    kex = SSH2_Kex(out, b'\0' * 16, [], [], party, party, False, 0)
    s = SSH_Socket(out, 'localhost', 22)
    for fn, args, var in ((HostKeyTest.run, (out, s, kex), 'KEX_TO_DHGROUP'), (GEXTest.run, (out, s, None, kex), 'GEX_ALGS')):
        tbl = capture_locals(fn, args, var)
        if tbl is None:
            continue
        cap += 1
        for nme in tbl:
            n += 1
            if nme not in db['kex']:
                viol.append(_v('C17/probe-kex-unknown:' + nme, '%s names a key exchange the rating database does not know' % var))
    return viol, {'probe_names_checked': n, 'locals_captured': cap}


def run_dheat(c):
    from ssh_audit.dheat import DHEat
    from ssh_audit.ssh2_kexdb import SSH2_KexDB
    db = SSH2_KexDB.MASTER_DB
    viol, n = [], 0
    for attr in ('gex_algs', 'alg_priority', 'alg_modulus_sizes', 'tested_algs', 'HARDCODED_ALGS', 'COMPLEX_PQ_ALGS'):
        tbl = getattr(DHEat, attr, None)
        if tbl is None:
            viol.append(_v('C17/dheat-table-missing:' + attr, 'denial-of-service table vanished (check needs updating)'))
            continue
        for nme in tbl:
            n += 1
            if nme not in db['kex']:
                viol.append(_v('C17/dheat-kex-unknown:' + nme, 'DHEat.%s names a key exchange the rating database does not know' % attr))
    return viol, {'dheat_names_checked': n}


def synth_script(pol, client, gex_style='strict', optional=False):
    """A peer configured exactly as the policy lists."""
    hk = {}
    sizes = pol.get('hostkey_sizes') or {}
    host_keys = list(pol.get('host_keys') or [])
    if optional:
        host_keys += [k for k in (pol.get('optional_host_keys') or []) if '-cert-' in k and not k.startswith('sk-') and k in sizes]
    for name in host_keys:
        if name in sizes:
            sz = sizes[name]
            if sz.get('ca_key_type'):
                ca = {'type': 'rsa', 'bits': sz['ca_key_size']} if sz['ca_key_type'] in ('ssh-rsa',) else {'type': 'ed25519'}
                hk[name] = {'type': 'rsa-cert' if 'rsa' in name else 'ed25519-cert', 'bits': sz['hostkey_size'], 'ca': ca}
            elif 'rsa' in name:
                hk[name] = {'type': 'rsa', 'bits': sz['hostkey_size']}
            elif 'ed25519' in name:
                hk[name] = {'type': 'ed25519'}
        elif 'ed25519' in name and 'cert' not in name and not name.startswith('sk-'):
            hk[name] = {'type': 'ed25519'}
        elif name.startswith('rsa-') or name == 'ssh-rsa':
            hk[name] = {'type': 'rsa', 'bits': 4096}
    gex = None
    dms = pol.get('dh_modulus_sizes') or {}
    if dms:
        gex = {'sizes': sorted(set(dms.values())), 'style': gex_style}
    elif any('group-exchange' in k for k in (pol.get('kex') or [])):
        gex = {'sizes': [4096], 'style': gex_style}
    script = {'banner': 'SSH-2.0-OpenSSH_9.9' if not client else 'SSH-2.0-OpenSSH_9.9',
              'kex': audit.sym_kex(pol.get('kex') or [], host_keys, pol.get('ciphers') or [], pol.get('macs') or [], comp=pol.get('compressions') or ['none', 'zlib@openssh.com']),
              'hostkeys': hk, 'gex': gex}
    return script


def run_policy_audit(c):
    from ssh_audit.builtin_policies import BUILTIN_POLICIES
    pol = BUILTIN_POLICIES[c['policy']]
    client = not pol['server_policy']
    script = synth_script(pol, client, c.get('gex_style', 'strict'), optional=bool(c.get('optional')))
    if client:
        r, p = audit.audit_client(script, ['-n'])
    else:
        r, p = audit.audit_server(script, ['-n'])
    if r.status not in (0, 2, 3):
        return None, {'why': 'audit of synthesised peer did not complete: %s' % r.brief(400)}
    rep = report.parse_text(r.out)
    viol = []
    fails = sorted((cat, nme, txt) for (cat, nme, lvl, txt) in rep.findings() if lvl == 'fail')
    if fails or r.status == 3:
        viol.append(_v('C17/policy-peer-shows-failure:' + (fails[0][1] if fails else 'status'), 'a peer configured exactly per a built-in policy shows a failure in a standard audit',
                       policy=c['policy'], fails=fails[:6], status=r.status))
    unknown = [(cat, a.name) for cat in report.CATS for a in rep.algs[cat] if any('unknown algorithm' in t for _l, t in a.notes)]
    if unknown:
        viol.append(_v('C17/policy-peer-shows-unknown:' + unknown[0][1], 'a policy algorithm is reported as unknown by the audit', policy=c['policy'], unknown=unknown))
    return viol, {'policy_audits': 1, 'policy_audits_openssh_moduli': 1 if c.get('gex_style') == 'openssh' else 0, 'policy_audits_with_permitted_certificates': 1 if c.get('optional') else 0, 'policy_audit_algs': sum(len(rep.algs[cat]) for cat in report.CATS)}


def run_after_weak(c):
    from ssh_audit.builtin_policies import BUILTIN_POLICIES
    from harness import multi
    pol = BUILTIN_POLICIES[c['policy']]
    weak = multi.healthy('terrapin')
    weak['hostkeys'] = {k_: (dict(v, bits=1024) if v.get('type') in ('rsa', 'rsa-cert') else v) for k_, v in weak['hostkeys'].items()}
    weak['gex'] = {'sizes': [1024], 'style': 'strict'}
    weak['kex']['key'] = list(weak['kex']['key']) + ['rsa-sha2-256']
    weak['hostkeys']['rsa-sha2-256'] = {'type': 'rsa', 'bits': 1024}
    targets = [multi.Target('weak', weak), multi.Target('synth', synth_script(pol, False))]
    try:
        res = multi.run_multi(targets, 1, 'json' if c.get('json') else 'text', monitors=['tables'], timeout=120)
    finally:
        for t in targets:
            t.stop()
    r = res['run']
    viol = []
    if c.get('json'):
        docs = (res.get('docs') or {}).get(targets[1].spec) or []
        if not docs:
            return None, {'why': 'no JSON entry for the synthesised peer: status %s' % r.status}
        fails = sorted((cat, nme, txt) for (cat, nme, lvl, txt) in report.json_findings(docs[0]) if lvl == 'fail')
    else:
        blocks = (res['blocks'] or {}).get(targets[1].spec) or []
        if not blocks:
            return None, {'why': 'no block for the synthesised peer: status %s' % r.status}
        rep = report.parse_text(blocks[0])
        fails = sorted((cat, nme, txt) for (cat, nme, lvl, txt) in rep.findings() if lvl == 'fail')
    if fails:
        viol.append(_v('C17/policy-peer-shows-failure-after-other-scan:' + fails[0][1], 'a peer configured exactly per a built-in policy shows a failure when audited after a weak target in the same run', policy=c['policy'], fails=fails[:5]))
    md = [e for e in (r.monitor or []) if e['k'] == 'master-digest' and e.get('when') == 'exit']
    if md and not md[0].get('same'):
        viol.append(_v('C17/master-table-changed-by-scan', 'the rating database itself was modified by a scan, so table agreement no longer holds for later audits', policy=c['policy']))
    return viol, {'policy_audits_after_weak': 1, 'policy_audits_after_weak_json': 1 if c.get('json') else 0, 'table_digest_checks': 1 if md else 0}


def run_case(c):
    fn = {'policy-audit-after-weak': run_after_weak, 'db': run_db, 'ssh1db': run_ssh1db, 'policies-xref': run_policies, 'probe-xref': run_probe, 'dheat-xref': run_dheat, 'policy-audit': run_policy_audit}[c['kind']]
    viol, counters = fn(c)
    if viol is None:
        return {'verdict': 'inconclusive', 'why': counters.get('why')}
    return {'violations': viol, 'counters': counters, 'nontrivial': sum(v for v in counters.values() if isinstance(v, int)) > 0,
            'sample': {'case': c, 'observed': counters}, 'sample_kind': c['kind']}
