"""C18 - the tool connects to, and reports on, exactly the target that was named."""
import json
import os
import random

from harness import audit, peer as peermod, report, runner

ID = 'C18'
LEVEL = 'exploration'
SHARDS = 16
THREADS = 3
RULE = ('one case = one real invocation under the resolver/connect doubles (scripted getaddrinfo answers; every connect is recorded with the requested family and address, then redirected to a local scripted server): '
        'hosts {names, IPv4 literals, IPv6 compressed and full} x ports {1, 22, 2222, 65535, random, 0, 65536, 70000, -1} x spellings {host, host:port, [v6]:port, bare v6} x {command line, targets file with blank lines, '
        'surrounding whitespace and CRLF} x {-p absent, present} x {none, -4, -6, -46, -64} x resolver answer orders {v4 first, v6 first, v4 only, v6 only}; a subset runs against the real resolver and stack (127.x.y.z, ::1).  '
        'Oracle: every resolver query carries exactly the modelled host and port and the family implied by the option; every connect goes to the first address of the modelled candidate list (requested families only, requested order); '
        'the label in JSON / multi-target / policy output follows the spelling rule; an invalid port yields no query, no connect and a non-zero status.  Non-trivial: >= 1 resolver query or a rejected port observed; distinct = distinct invocations')
REQUIRED = {'rate_check_connects_checked': 100, 'reconnects_checked': 300, 'invocations': 200, 'resolver_queries': 200, 'connects_checked': 150, 'labels_checked': 100, 'invalid_ports': 15, 'targets_file_runs': 30, 'ipv_option_runs': 60, 'real_stack_runs': 5}
ASSUMPTIONS = ['host:port in the target wins over -p (the statement calls -p the default)',
               'the tool is only required to try candidates in order; whether it falls back to the second address after a failure is not part of the property']
MANIFEST = {
    'text': 'Exploration with active doubles: the process-level resolver and connect are replaced (inside the launcher) by recording doubles, so the (host, port, family) the tool asks for and the address it dials are observed exactly for hundreds of spellings and option combinations; a real-stack subset validates the doubles.',
    'note': 'The doubles live in harness/launch.py (socket.getaddrinfo and socket.socket.connect/connect_ex); the model of spellings is written from the statement; trusts report parsers for labels.',
    'technique': 'in-process event monitoring through resolver/connect doubles with a reference model of target spellings and address-family selection',
}
V4, V6 = '192.0.2.7', '2001:db8::7'
V6FULL = '2001:0db8:0000:0000:0000:0000:0000:0007'
NAMES = ['server.example', 'a-b.example.org', 'localhost']
MINI = None


def mini_script():
    return {'banner': 'SSH-2.0-OpenSSH_9.3', 'kex': audit.sym_kex(['sntrup761x25519-sha512@openssh.com', 'kex-strict-s-v00@openssh.com'], ['ssh-ed25519'], ['aes256-gcm@openssh.com'], ['hmac-sha2-512-etm@openssh.com']), 'hostkeys': {}, 'gex': None}


def probe_script():
    # a peer whose audit needs several connections (host-key and group-exchange probes): every one of them goes to the address the first one went to
    return {'banner': 'SSH-2.0-OpenSSH_9.3', 'kex': audit.sym_kex(['curve25519-sha256', 'diffie-hellman-group-exchange-sha256', 'kex-strict-s-v00@openssh.com'], ['ssh-ed25519', 'rsa-sha2-512'], ['aes256-gcm@openssh.com'], ['hmac-sha2-512-etm@openssh.com']),
            'hostkeys': {'ssh-ed25519': {'type': 'ed25519'}, 'rsa-sha2-512': {'type': 'rsa', 'bits': 3072}}, 'gex': {'sizes': [3072], 'style': 'strict'}}


def cases(tier, seed):
    rng = random.Random(seed * 71 + 18)
    cs = []
    ports_ok = [1, 22, 2222, 65535]
    ports_bad = [0, 65536, 70000, -1]
    hosts = [('name', n) for n in NAMES] + [('v4', V4), ('v6', V6), ('v6', V6FULL), ('v6', '::7')]
    orders = ['v4first', 'v6first', 'v4only', 'v6only']
    ipopts = [[], ['-4'], ['-6'], ['-46'], ['-64'], ['-4', '-6'], ['-6', '-4'], ['--ipv6', '--ipv4'],
              ['-6', '-6'], ['-66'], ['-4', '--ipv4'], ['-6', '--ipv6'], ['-4', '-6', '-4'], ['-646']]   # an option given twice means what it means given once
    n = 0
    for kind, h in hosts:
        for port in ports_ok + [rng.randint(1024, 65000)] + ports_bad:
            for spelling in ('plain', 'hostport', 'p-option', 'both'):
                for place in ('cmdline', 'file'):
                    n += 1
                    if tier == 'quick' and n % 5 != seed % 5 and not (port in ports_bad and n % 2):
                        continue
                    if spelling == 'plain' and port != 22:
                        continue
                    cs.append({'kind': 'spelling', 'hkind': kind, 'host': h, 'port': port, 'spelling': spelling, 'place': place, 'ip': ipopts[n % len(ipopts)] if n % 3 == 0 else [], 'order': orders[n % 4],
                               'fmt': ['json', 'text', 'policy'][n % 3], 'seed': rng.randrange(1 << 30)})
    # bare IPv6 literals whose last group(s) look like a port: without brackets the whole string is the host
    for j, h in enumerate(['fe80::1:22', '2001:db8::2:1', '::ffff:0:8080', '2001:db8::a:2222', '2001:db8:0:0:0:0:7:22', '1::2:3:4:5:6:6553', '::22', '::1:2222',
                           '::ffff:192.0.2.7', '64:ff9b::192.0.2.33', '0:0:0:0:0:ffff:192.0.2.7', '2001:DB8::A1', 'FE80::DEAD:BEEF', '::FFFF:192.0.2.9',
                           '2001:db8:0:1::', 'fd00:1:2::', '2001:22::', 'fe80::',
                           'fe80::1%eth0', 'fe80::2:22%3', 'fe80::dead:beef%wlan0.5']):   # ... and link-local addresses with a zone id (RFC 4007: "%" then an interface name or index), bare and in brackets   # ... and addresses whose trailing groups are zero (the text ends in "::")   # then IPv6 written with an embedded dotted quad, and with upper-case hex digits
        for spelling, port in (('plain', 22), ('p-option', 2222), ('p-option', 22), ('hostport', 8022), ('both', 8022)):
            for place in ('cmdline', 'file'):
                n += 1
                if tier == 'quick' and (j + n) % 2 and spelling in ('hostport', 'both'):
                    continue
                cs.append({'kind': 'spelling', 'hkind': 'v6', 'host': h, 'port': port, 'spelling': spelling, 'place': place, 'ip': [['-6'], [], ['-46']][n % 3], 'order': 'v6only', 'fmt': ['json', 'text', 'policy'][n % 3], 'seed': rng.randrange(1 << 30),
                           'portlike': True})
    for opt in ipopts:
        for order in orders:
            for kind, h in (('name', 'dual.example'), ('v4', V4), ('v6', V6)):
                for place in ('cmdline', 'file'):
                    cs.append({'kind': 'spelling', 'hkind': kind, 'host': h, 'port': 2222, 'spelling': 'hostport', 'place': place, 'ip': opt, 'order': order, 'fmt': 'json', 'seed': rng.randrange(1 << 30), 'ipcase': True})
    # the same with the connection-rate check of a standard audit running: its connections follow the requested families and order too
    for opt in (['-46'], ['-64'], ['-4'], ['-6'], []):
        for order in orders:
            cs.append({'kind': 'spelling', 'hkind': 'name', 'host': 'dual.example', 'port': 2222, 'spelling': 'hostport', 'place': 'cmdline', 'ip': opt, 'order': order, 'fmt': 'json', 'seed': rng.randrange(1 << 30), 'ipcase': True, 'rate': True})
    for i in range(6 if tier == 'quick' else 40):
        cs.append({'kind': 'real', 'addr': rng.choice(['127.0.0.1', '127.%d.%d.%d' % (rng.randint(0, 255), rng.randint(0, 255), rng.randint(1, 254)), '::1']), 'place': ['cmdline', 'file'][i % 2], 'fmt': ['json', 'text'][i % 2]})
    for i in range(4 if tier == 'quick' else 30):
        cs.append({'kind': 'filemix', 'seed': rng.randrange(1 << 30)})
    for i, bad in enumerate(['delta.example:70000', 'delta.example:0', '[2001:db8::9]:65536', 'delta.example:-5', 'delta.example:port']):
        cs.append({'kind': 'filemix', 'seed': rng.randrange(1 << 30), 'bad': bad, 'badpos': i % 3})
    for i in range(2 if tier == 'quick' else 8):
        cs.append({'kind': 'filemix', 'seed': rng.randrange(1 << 30), 'big': [6000, 20000, 9000, 40000][i % 4]})
    return cs


def _v(key, what, **d):
    return {'key': key, 'what': what, 'detail': d}


def spell(c):
    """(argv target string or file line, extra args, expected (host, port) or None if the port must be rejected)."""
    h, port, sp = c['host'], c['port'], c['spelling']
    v6 = c['hkind'] == 'v6'
    extra = []
    if sp == 'plain':
        t, exp = h, (h, 22)
    elif sp == 'hostport':
        t = ('[%s]:%d' % (h, port)) if v6 else '%s:%d' % (h, port)
        exp = (h, port)
    elif sp == 'p-option':
        t, extra, exp = h, ['-p', str(port)], (h, port)
    else:  # both: -p gives a default, the target spells its own port
        other = 2022 if port != 2022 else 2023
        t = ('[%s]:%d' % (h, port)) if v6 else '%s:%d' % (h, port)
        extra, exp = ['-p', str(other)], (h, port)
    if not 1 <= port <= 65535:
        exp = None
    return t, extra, exp


def answers_for(c, host):
    o = c['order']
    a4, a6 = [4, '198.51.100.9'], [6, '2001:db8:1::9']
    if c['hkind'] == 'v4':
        return [[4, host]]
    if c['hkind'] == 'v6':
        return [[6, host]]
    return {'v4first': [a4, a6], 'v6first': [a6, a4], 'v4only': [a4], 'v6only': [a6]}[o]


def family_pref(ip):
    """Ordered list of requested families from the options as written, [] for no preference."""
    out = []
    for a in ip:
        if a in ('--ipv4',):
            out.append(4)
        elif a in ('--ipv6',):
            out.append(6)
        elif a.startswith('-') and not a.startswith('--'):
            for ch in a[1:]:
                if ch in '46':
                    out.append(int(ch))
    return [x for i, x in enumerate(out) if x not in out[:i]]


def label_for(host, port, v6):
    if port == 22:
        return host
    return ('[%s]:%d' % (host, port)) if v6 else '%s:%d' % (host, port)


def run_spelling(c):
    t, extra, exp = spell(c)
    viol, counters = [], {'invocations': 1}
    script = probe_script() if c.get('ipcase') else mini_script()
    p4 = peermod.ServerPeer(script, host='127.0.0.1')
    p6 = peermod.ServerPeer(script, host='::1')
    ans = answers_for(c, c['host'])
    spec = {'resolver': {'answers': {c['host']: ans}, 'redirect': ['127.0.0.1', p4.port], 'redirect6': ['::1', p6.port]}}
    d = runner.scratch_dir('c18')
    try:
        args = ([] if c.get('rate') else ['--skip-rate-test']) + list(c['ip']) + list(extra)
        fmt = c['fmt']
        if fmt == 'policy':
            from props import c06
            pol = c06.base_pol(0)
            pol['kex'] = mini_script()['kex']['kex']
            pf = os.path.join(d, 'p.txt')
            open(pf, 'w').write(c06.policy_text(pol, 'c18'))
            args += ['-n', '-P', pf]
        elif fmt == 'json':
            args += ['-j']
        else:
            args += ['-n']
        if c['place'] == 'file':
            tf = os.path.join(d, 'targets.txt')
            with open(tf, 'w', newline='') as f:
                f.write('\n  \n' + '  ' + t + ' \r\n' + '\n')
            args += ['-T', tf]
            counters['targets_file_runs'] = 1
        else:
            args += [t]
        r = runner.run_cli(args, monitors=['resolver', 'calls'], spec=spec, cwd=d, timeout=60)
    finally:
        p4.stop(0.3)
        p6.stop(0.3)
        runner.cleanup(d)
    if r.timed_out:
        return None, {'why': 'watchdog'}
    mon = r.monitor or []
    res = [e for e in mon if e['k'] == 'resolve']
    want = [e for e in mon if e['k'] == 'want-connect']
    counters['resolver_queries'] = len(res)
    how = '%s:%s:%s' % (c['place'], c['spelling'], c['hkind'])
    if c['ip']:
        counters['ipv_option_runs'] = 1
    if exp is None:
        counters['invalid_ports'] = 1
        # the statement forbids connections; a name lookup is not a connection to the target
        if want:
            viol.append(_v('C18/invalid-port-not-rejected-before-connecting:' + how, 'a port outside 1-65535 led to a connection attempt', port=c['port'], queries=res[:2], connects=want[:2]))
        if r.status == 0:
            viol.append(_v('C18/invalid-port-exit-zero:' + how, 'a port outside 1-65535 ended with status 0', port=c['port']))
        if c['place'] == 'file' and 'Traceback' in r.out + r.err and not res and not want:
            pass  # rejected (ungracefully) before any lookup: allowed by the statement
        return viol, counters
    host, port = exp
    pref = family_pref(c['ip'])
    fam_map = {4: 2, 6: 10}
    if not res and c['hkind'] == 'name':
        viol.append(_v('C18/no-resolver-query:' + how, 'a host name led to no resolver query at all', args=args[-4:], out=(r.out + r.err)[-300:], status=r.status))
        return viol, counters
    # (an IP literal needs no lookup: when there is no query the connects alone are judged against the model)
    for e in res:
        if e['host'] != host or (e['port'] != port and not (c.get('rate') and e['port'] == 0)):   # (the rate check looks the host up without a port and connects to the target's port)
            viol.append(_v('C18/wrong-host-or-port-queried:' + how, 'the resolver was asked for a different host or port than the one named', got=[e['host'], e['port']], want=[host, port], target=t, extra=extra))
            break
        want_fam = 0 if len(pref) != 1 else fam_map[pref[0]]
        if e['family'] != want_fam:
            viol.append(_v('C18/wrong-family-queried:' + ''.join(c['ip']), 'the resolver was asked for a family that does not follow the IP-version option', got=e['family'], want=want_fam))
            break
    # candidate list per the model
    cands = [a for a in ans if not pref or a[0] in pref]
    if len(pref) == 2:
        cands = sorted(cands, key=lambda a: pref.index(a[0]))
    counters['connects_checked'] = len(want)
    counters['reconnects_checked'] = max(0, len(want) - 1)
    if c.get('rate'):
        counters['rate_check_connects_checked'] = len(want)
    if not cands:
        if want:
            viol.append(_v('C18/connect-to-unrequested-family:' + ''.join(c['ip']), 'a connection was attempted although no address of the requested family exists', connects=want[:2]))
    else:
        if not want:
            viol.append(_v('C18/no-connect:' + how, 'no connection attempt for a resolvable target', status=r.status, out=(r.out + r.err)[-300:]))
        for e in want:
            fam = 4 if e['family'] == 2 else 6
            if [fam, e['addr'][0]] != cands[0] or e['addr'][1] != port:
                wrong = 'order' if [fam, e['addr'][0]] in cands else 'address'
                viol.append(_v('C18/connect-wrong-%s:%s:%s' % (wrong, ''.join(c['ip']) or 'nopref', c['order'] if c['hkind'] == 'name' else c['hkind']), 'a connection went to an address other than the first candidate of the requested families/order (or to another port)',
                               got=[fam, e['addr']], want=cands, port=port, options=c['ip']))
                break
    # label
    if cands and r.status in (0, 2, 3):
        counters['labels_checked'] = 1
        v6 = c['hkind'] == 'v6'
        if c['fmt'] == 'json':
            try:
                doc = json.loads(r.out)
                if isinstance(doc, list):
                    doc = doc[0]
                got = doc.get('target')
                if got != '%s:%d' % (host, port):
                    viol.append(_v('C18/label-wrong:json:' + how, 'JSON target differs from the named target', got=got, want='%s:%d' % (host, port)))
            except (ValueError, IndexError, AttributeError):
                viol.append(_v('C18/json-unparsable', 'stdout is not JSON', out=r.out[:200]))
        elif c['fmt'] == 'policy':
            got = report.parse_policy_text(r.out)['host']
            if got != label_for(host, port, v6):
                viol.append(_v('C18/label-wrong:policy:' + how, 'Host: line differs from the named target', got=got, want=label_for(host, port, v6)))
        elif c['place'] == 'file':
            got = report.parse_text(r.out).gen_value('target')
            # '(gen) target: host:port' is split at the first colon by the generic parser: re-read the raw line
            import re
            m = re.search(r'^\(gen\) target: (\S+)', r.out, re.M)
            got = m.group(1) if m else None
            if got != label_for(host, port, v6):
                viol.append(_v('C18/label-wrong:text:' + how, '(gen) target: line differs from the named target', got=got, want=label_for(host, port, v6)))
    elif cands and r.status not in (0, 2, 3):
        viol.append(_v('C18/audit-failed:' + how, 'audit of a valid, reachable target failed', status=r.status, out=(r.out + r.err)[-300:]))
    return viol, counters


def run_real(c):
    """No doubles: real getaddrinfo and real loopback stack; validates the doubles' picture of the tool."""
    p = peermod.ServerPeer(mini_script(), host=c['addr'])
    d = runner.scratch_dir('c18r')
    try:
        args = ['--skip-rate-test'] + (['-j'] if c['fmt'] == 'json' else ['-n'])
        if c['place'] == 'file':
            tf = os.path.join(d, 't.txt')
            open(tf, 'w').write(p.target() + '\n')
            args += ['-T', tf]
        else:
            args += [p.target()]
        r = runner.run_cli(args, monitors=['sockets', 'audit'], cwd=d, timeout=60)
    finally:
        p.stop(0.3)
        runner.cleanup(d)
    viol, counters = [], {'invocations': 1, 'real_stack_runs': 1}
    gai = r.mon('getaddrinfo')
    con = r.mon('connect')
    counters['resolver_queries'] = len(gai)
    counters['connects_checked'] = len(con)
    if r.status not in (0, 2, 3) or not p.conns:
        viol.append(_v('C18/real-stack-audit-failed', 'audit over the real stack failed', status=r.status, out=(r.out + r.err)[-300:]))
    for e in gai:
        if e['host'] != c['addr'] or e['port'] != p.port:
            viol.append(_v('C18/real-stack-wrong-query', 'real resolver asked for another host/port', got=[e['host'], e['port']], want=[c['addr'], p.port]))
    for e in con:
        if e['addr'][0] != c['addr'] or e['addr'][1] != p.port:
            viol.append(_v('C18/real-stack-wrong-connect', 'real connect went elsewhere', got=e['addr'], want=[c['addr'], p.port]))
    return viol, counters


def run_filemix(c):
    """Several targets in one file, mixed spellings, default port from -p: each must be queried with its own host/port and labelled with it."""
    rng = random.Random(c['seed'])
    p4 = peermod.ServerPeer(mini_script(), host='127.0.0.1')
    p6 = peermod.ServerPeer(mini_script(), host='::1')
    defport = rng.choice([22, 2200, 8022])
    entries = [('alpha.example', None), ('beta.example', 2222), (V4, None), (V4, 65535), (V6, None), (V6, 4022), ('gamma.example', 1)]
    rng.shuffle(entries)
    lines, expect = [], []
    for h, port in entries:
        v6 = ':' in h
        if port is None:
            lines.append(h)
            expect.append((h, defport, v6))
        else:
            lines.append(('[%s]:%d' % (h, port)) if v6 else '%s:%d' % (h, port))
            expect.append((h, port, v6))
    if c.get('bad'):
        lines.insert(min(c['badpos'] * 3, len(lines)), c['bad'])
    ans = {'delta.example': [[4, '198.51.100.77']], '2001:db8::9': [[6, '2001:db8::9']]}
    for h, _p, v6 in expect:
        ans[h] = [[6, h]] if v6 else ([[4, h]] if h[0].isdigit() else [[4, '198.51.100.%d' % (len(ans) + 1)]])
    spec = {'resolver': {'answers': ans, 'redirect': ['127.0.0.1', p4.port], 'redirect6': ['::1', p6.port]}}
    d = runner.scratch_dir('c18m')
    try:
        tf = os.path.join(d, 't.txt')
        with open(tf, 'w', newline='') as f:
            body = [(' ' + l + '  ') if i % 2 else l for i, l in enumerate(lines)]
            if c.get('big'):
                # a long file: thousands of blank and whitespace-only lines (skipped, as documented) around the entries, more than 64 K characters before the last ones
                filler = ['', '   ', '\t', ' ' * 60]
                body = [x for i, l in enumerate(body) for x in ([filler[(i + j) % 4] for j in range(c['big'] // len(body))] + [l])]
                counters_big = sum(len(x) + 1 for x in body)
            f.write('\n'.join(body) + '\n\n')
        r = runner.run_cli(['--skip-rate-test', '-n', '-T', tf, '--threads', str(rng.choice([1, 3]))] + (['-p', str(defport)] if defport != 22 else []), monitors=['resolver'], spec=spec, cwd=d, timeout=90)
    finally:
        p4.stop(0.3)
        p6.stop(0.3)
        runner.cleanup(d)
    viol, counters = [], {'invocations': 1, 'targets_file_runs': 1}
    if c.get('big'):
        counters['targets_files_longer_than_64k'] = 1 if counters_big > 65536 else 0
    res = [(e['host'], e['port']) for e in (r.monitor or []) if e['k'] == 'resolve']
    counters['resolver_queries'] = len(res)
    if c.get('bad'):
        counters['invalid_ports'] = 1
        wc = [e for e in (r.monitor or []) if e['k'] == 'want-connect']
        if wc:
            viol.append(_v('C18/invalid-port-in-file-not-rejected-before-connecting', 'a targets file with an invalid port led to connection attempts', bad=c['bad'], connects=[e['addr'] for e in wc][:4], status=r.status))
        if r.status == 0:
            viol.append(_v('C18/invalid-port-in-file-exit-zero', 'a targets file with an invalid port ended with status 0', bad=c['bad']))
        return viol, counters
    want = sorted((h, p_) for h, p_, _v6 in expect)
    is_name = {h: not (v6 or h[0].isdigit()) for h, _p, v6 in expect}
    must = sorted(x for x in want if is_name[x[0]])          # names have to be looked up; IP literals may be dialled without a lookup
    res_names = sorted(x for x in res if is_name.get(x[0], True))
    if res_names != must or not set(res) <= set(want):
        viol.append(_v('C18/file-targets-queried-wrong', 'the set of (host, port) resolver queries differs from the targets listed in the file', got=sorted(res), want=want))
    import re
    labels = sorted(re.findall(r'^\(gen\) target: (\S+)', r.out, re.M))
    wl = sorted(label_for(h, p_, v6) for h, p_, v6 in expect)
    counters['labels_checked'] = len(labels)
    if labels != wl:
        viol.append(_v('C18/file-labels-wrong', 'the target labels of the blocks differ from the targets listed', got=labels, want=wl))
    return viol, counters


def run_case(c):
    fn = {'spelling': run_spelling, 'real': run_real, 'filemix': run_filemix}[c['kind']]
    viol, counters = fn(c)
    if viol is None:
        return {'verdict': 'inconclusive', 'why': counters.get('why')}
    seen, uniq = set(), []
    for v in viol:
        if v['key'] not in seen:
            seen.add(v['key'])
            uniq.append(v)
    return {'violations': uniq, 'counters': counters, 'nontrivial': counters.get('resolver_queries', 0) > 0 or counters.get('invalid_ports', 0) > 0 or counters.get('connects_checked', 0) > 0,
            'sample': {'case': c, 'observed': counters}, 'sample_kind': c['kind'] + str(c.get('spelling', '')) + str(c.get('place', ''))}
