"""C09 - no peer can crash, hang or fool the auditor."""
import json
import random
import re

from harness import audit, gen, peer as peermod, report, runner, wire
from props import c01

ID = 'C09'
LEVEL = 'fault_enumeration'
SHARDS = 16
THREADS = 6
BUDGET = {'quick': 1500, 'thorough': 5 * 3600}
RULE = ('fault enumeration over valid transcripts T1 minimal, T2 host-key probes (RSA + Ed25519), T3 group exchange (sha256 + sha1, host key fetched over GEX), T4 certificate host keys, T5 SSH-1, T6 client role: '
        'for every message the peer sends (banner, KEXINIT, KEXDH_REPLY, GEX_GROUP, GEX_REPLY, SSH-1 public key) on the first connection and on the probe connections: truncation at byte offsets then close / then stall '
        '(quick: every 7th offset + every field boundary; thorough: every offset), every addressable length field set to 0 / len-1 / len+1 / 2^32-1, padding length 0/3/255, wrong message types, duplicates, '
        'DEBUG/IGNORE interleavings, 0-5 pre-banner lines, 1-byte segmentation and two-segment splits, seeded random byte mutations.  Each case is one real audit with -t 1 under the socket monitor.  Oracle: status in {0,1,2,3} and no traceback; '
        'every blocking receive ran under the configured finite timeout, timeouts <= 4 x connections, CPU <= 5 s + 0.5 s x connections; if the first connection carried a valid banner and a strictly decodable KEXINIT the report is complete '
        '(names equal the KEXINIT), otherwise status 1 and no algorithm lines.  Non-trivial: the fault was applied (peer log) and the monitor saw >= 1 receive; distinct = distinct (transcript, connection, message, operator, parameters)')
REQUIRED = {'clients_connecting_over_ipv6': 5, 'fallback_refused_again': 2, 'default_timeout_runs': 4, 'rate_check_runs': 5, 'faults_applied': 300, 'recv_events': 2000, 'expected_report': 100, 'expected_error': 100, 'stall_cases': 10, 'probe_phase_faults': 100}
ASSUMPTIONS = ['"terminates" is decided as bounded progress on logical measures (timeouts in force, number of timed-out receives, CPU), never on wall-clock; a watchdog expiry without a deterministic hang signature is inconclusive',
               'well-formed first connection = identification line ending in LF, then zero or more well-framed DEBUG/IGNORE packets, then a well-framed packet of type 20 that the strict decoder accepts (exact trailer)',
               'moduli and keys in generated replies are at most 16384 bits']
MANIFEST = {
    'text': 'Fault enumeration: every (connection, message, operator) triple of the stated operator set is injected by a scripted peer into nine valid transcripts (minimal, host-key probes, group exchange, certificates, SSH-1, client role, rate check, several host-key types with group exchange, a large KEXINIT) and the real CLI is observed from outside (status, output) and inside (recording sockets: timeout in force and outcome of every blocking call).',
    'note': 'Trusts the strict decoder in harness/wire.py to classify what was actually sent on the first connection; CPU and timeout counts are logical measures from rusage and the in-process socket monitor.',
    'technique': 'fault injection at every message/field/offset with a boundary monitor (peer log, exit status, report) and an in-process socket monitor (bounded-progress oracle)',
}
SNTRUP = 'sntrup761x25519-sha512@openssh.com'
GEX256, GEX1 = 'diffie-hellman-group-exchange-sha256', 'diffie-hellman-group-exchange-sha1'


def transcript(name):
    enc, mac = ['aes128-ctr', 'aes256-gcm@openssh.com'], ['hmac-sha2-256', 'hmac-sha2-512-etm@openssh.com']
    if name == 'T1':
        return {'banner': 'SSH-2.0-OpenSSH_9.3', 'kex': audit.sym_kex([SNTRUP, 'ext-info-s'], ['ssh-ed25519'], enc, mac), 'hostkeys': {}, 'gex': None}
    if name == 'T2':
        return {'banner': 'SSH-2.0-OpenSSH_9.3', 'kex': audit.sym_kex(['curve25519-sha256', SNTRUP], ['ssh-rsa', 'ssh-ed25519'], enc, mac),
                'hostkeys': {'ssh-rsa': {'type': 'rsa', 'bits': 2048}, 'ssh-ed25519': {'type': 'ed25519'}}, 'gex': None}
    if name == 'T3':
        return {'banner': 'SSH-2.0-OpenSSH_9.3', 'kex': audit.sym_kex([GEX256, GEX1], ['ssh-ed25519'], enc, mac), 'hostkeys': {'ssh-ed25519': {'type': 'ed25519'}}, 'gex': {'sizes': [1024, 2048], 'style': 'strict'}}
    if name == 'T4':
        return {'banner': 'SSH-2.0-OpenSSH_9.3', 'kex': audit.sym_kex(['curve25519-sha256'], ['ssh-rsa-cert-v01@openssh.com', 'ssh-ed25519-cert-v01@openssh.com'], enc, mac),
                'hostkeys': {'ssh-rsa-cert-v01@openssh.com': {'type': 'rsa-cert', 'bits': 2048, 'ca': {'type': 'rsa', 'bits': 2048}}, 'ssh-ed25519-cert-v01@openssh.com': {'type': 'ed25519-cert', 'ca': {'type': 'ecdsa', 'bits': 256}}}, 'gex': None}
    if name == 'T5':
        return {'banner': 'SSH-1.5-OpenSSH_1.2.3', 'proto': 1, 'ssh1': {'cmask': 0x48, 'amask': 0x0c, 'host_bits': 1024}}
    if name == 'T6':
        return {'banner': 'SSH-2.0-OpenSSH_9.3', 'kex': audit.sym_kex(['curve25519-sha256', 'kex-strict-c-v00@openssh.com'], ['ssh-ed25519'], enc, mac)}
    if name == 'T9':
        # a KEXINIT of about 7 kB (long private names): it does not fit into the tool's first read together with the banner
        r9 = random.Random(99)
        def ln(pre):
            return [pre + '%d-' % i + ''.join(r9.choice('abcdefghij') for _ in range(150)) + '@example.com' for i in range(10)]
        return {'banner': 'SSH-2.0-OpenSSH_9.3', 'kex': audit.sym_kex([SNTRUP] + ln('kx'), ['ssh-ed25519'] + ln('hk'), enc + ln('en'), mac + ln('mc')), 'hostkeys': {}, 'gex': None}
    if name == 'T8':
        # several host-key types AND a group exchange: a probe that fails for one key type is followed by further probe phases
        return {'banner': 'SSH-2.0-OpenSSH_9.3', 'kex': audit.sym_kex(['curve25519-sha256', GEX256], ['rsa-sha2-512', 'ssh-ed25519', 'ecdsa-sha2-nistp256'], enc, mac),
                'hostkeys': {'rsa-sha2-512': {'type': 'rsa', 'bits': 3072}, 'ssh-ed25519': {'type': 'ed25519'}, 'ecdsa-sha2-nistp256': {'type': 'ecdsa', 'bits': 256}}, 'gex': {'sizes': [2048, 4096], 'style': 'strict'}}
    raise ValueError(name)


def messages(name):
    """{label: (bytes, [connection selectors])} of what the peer sends in this transcript."""
    s = transcript(name)
    pb = peermod.PeerBase(s)
    out = {'banner': (pb.banner_blob(), [0])}
    if name == 'T5':
        out['banner'] = (pb.banner_blob(), [0, 1])
        out['vdiff'] = (b'Protocol major versions differ.\n', [0])
        out['pkm'] = (wire.ssh1_packet(2, wire.ssh1_pkm(0x48, 0x0c, 1024, 768)), [1])
        return out
    out['kexinit'] = (pb.kexinit_packet(), [0])
    if name == 'T6':
        return out
    if name != 'T1':
        out['banner'] = (pb.banner_blob(), [0, 1, 'probe'])
        out['kexinit'] = (pb.kexinit_packet(), [0, 1, 'probe'])
    if name in ('T2', 'T4'):
        first = s['kex']['key'][0]
        out['kexreply'] = (wire.packet(wire.kex_reply(31, wire.key_blob(s['hostkeys'][first]))), [1, 'probe'])
    if name == 'T3':
        out['gexgroup'] = (wire.packet(wire.gex_group(wire.det_int(1024, b'gex'))), [1, 2, 'probe'])
        out['gexreply'] = (wire.packet(wire.kex_reply(33, wire.key_blob(s['hostkeys']['ssh-ed25519']))), [1, 'probe'])
    return out


RATE_BEHAVIOURS = ['close', 'reset', 'urgent-reset', 'reset-after-banner', 'silent', 'garbage', 'stop-listening', 'exceeded']


def cases(tier, seed):
    rng = random.Random(seed * 43 + 9)
    cs = []
    # the connection-rate check of a standard audit (everything else here runs with it skipped): the handshake and the probes are fine, the short-lived connections that follow are closed, reset, refused, ignored ...
    for beh in RATE_BEHAVIOURS:
        for rep_ in range(1 if tier == 'quick' else 4):
            cs.append({'T': 'T7', 'op': 'rate', 'beh': beh, 'after': [0, 1, 3, 10][rep_]})
    for bn in ('SSH-1.5-OpenSSH_1.2.3', 'SSH-1.99-OpenSSH_3.4p1', 'SSH-1.5-Cisco-1.25'):
        cs.append({'T': 'T5', 'op': 'differ-again', 'banner': bn})
        cs.append({'T': 'T5', 'op': 'differ-again', 'banner': bn, 'opts': ['-2'], 'serves_ssh1': True})
    # the documented default timeout (5 s) when -t is not given: client audit and server audit against a peer that says nothing / stops after its banner
    for T, op, at in (('T6', 'stall_before', 'banner'), ('T6', 'stall_before', 'kexinit'), ('T1', 'stall_before', 'banner'), ('T1', 'stall_before', 'kexinit')):
        cs.append({'T': T, 'op': op, 'conn': 0, 'at': at, 'default_timeout': True})
    # T9: the peer says everything it has to say (banner + a large KEXINIT) and then ends the connection - orderly or with a reset - before it has read anything the tool sent
    for T in ('T9', 'T1'):
        cs.append({'T': T, 'op': 'none'})
        for op in ({'op': 'then_reset', 'pause': 0.0}, {'op': 'then_reset', 'pause': 0.02}, {'op': 'then_close'}):
            cs.append(dict({'T': T, 'conn': 0, 'at': 'kexinit'}, **op))
            cs.append(dict({'T': T, 'conn': 0, 'at': 'kexinit', 'eager': True}, **op))   # ... not even its identification string
        # whether the reset reaches the tool before or after its own first writes is a race the peer cannot control: the same case several times, with several pauses
        for rep_ in range(3):
            for pause in (0.0, 0.005, 0.05):
                cs.append({'T': T, 'conn': 0, 'at': 'kexinit', 'eager': True, 'op': 'then_reset', 'pause': pause, 'rep': rep_})
    # lines before the identification string AND the identification string cut in two: the first write ends inside the banner line
    for T in ('T1', 'T2'):
        for npre in (1, 3):
            for cut in (4, 12, 16):
                cs.append({'T': T, 'op': 'presplit', 'n': npre, 'cut': cut, 'conn': 0, 'at': 'banner'})
    # T8: one of the three host-key probes (or a group-exchange probe) goes wrong, the others and the group-exchange phase follow
    cs.append({'T': 'T8', 'op': 'none'})
    for conn in (1, 2, 3):
        for op in ({'op': 'close_before'}, {'op': 'stall_before'}, {'op': 'patch', 'offset': 5, 'hex': '03'}, {'op': 'patch', 'offset': 5, 'hex': '01'}, {'op': 'random', 'seed': 11}, {'op': 'truncate', 'offset': 9, 'then': 'close'}):
            cs.append(dict({'T': 'T8', 'conn': conn, 'at': 'kexreply'}, **op))
    for conn in (4, 5, 6):
        for op in ({'op': 'close_before'}, {'op': 'patch', 'offset': 5, 'hex': '03'}):
            cs.append(dict({'T': 'T8', 'conn': conn, 'at': 'gexgroup'}, **op))
    for T in ('T1', 'T2', 'T3', 'T4', 'T5', 'T6'):
        cs.append({'T': T, 'op': 'none'})
        msgs = messages(T)
        for label, (data, conns) in msgs.items():
            fields = wire.length_fields(label, data)
            bounds = sorted({o for o, w, _n in fields} | {o + w for o, w, _n in fields} | {0, 1, len(data) - 1})
            for conn in conns:
                # truncation
                step = 1 if tier == 'thorough' else 7
                offs = sorted(set(range(rng.randrange(step), len(data), step)) | set(b for b in bounds if b < len(data)))
                if tier == 'quick' and conn == 'probe':
                    offs = offs[::3]
                if tier == 'quick' and len(offs) > 60:
                    offs = sorted(set(rng.sample(offs, 45)) | set(b for b in bounds[:12] if b < len(data)))
                for o in offs:
                    cs.append({'T': T, 'op': 'truncate', 'conn': conn, 'at': label, 'offset': o, 'then': 'close'})
                st = offs[::9] if tier == 'quick' else offs[::4]
                for o in st[:6 if tier == 'quick' else 60]:
                    cs.append({'T': T, 'op': 'truncate', 'conn': conn, 'at': label, 'offset': o, 'then': 'stall'})
                cs.append({'T': T, 'op': 'close_before', 'conn': conn, 'at': label})
                cs.append({'T': T, 'op': 'stall_before', 'conn': conn, 'at': label})
                # length fields
                for o, w, fname in fields:
                    cur = int.from_bytes(data[o:o + w], 'big')
                    vals = [0, max(cur - 1, 0), cur + 1, (1 << (8 * w)) - 1]
                    if fname == 'padding_length':
                        vals = [0, 3, 255, cur + 1]
                    if fname == 'packet_length':
                        vals += [cur + 8, cur - 8, 4, 1 << 24]
                    for v in sorted(set(vals)):
                        if v == cur or v < 0 or v >= (1 << (8 * w)):
                            continue
                        cs.append({'T': T, 'op': 'patch', 'conn': conn, 'at': label, 'offset': o, 'hex': v.to_bytes(w, 'big').hex(), 'field': fname})
                if label not in ('banner', 'vdiff'):
                    toff = 5 if label != 'pkm' else 4 + (8 - int.from_bytes(data[:4], 'big') % 8)
                    for t in (0, 1, 2, 3, 4, 20, 21, 30, 31, 32, 33, 34, 255):
                        if data[toff] != t:
                            cs.append({'T': T, 'op': 'patch', 'conn': conn, 'at': label, 'offset': toff, 'hex': '%02x' % t, 'field': 'msgtype'})
                    cs.append({'T': T, 'op': 'dup', 'conn': conn, 'at': label})
                    if label != 'pkm':
                        for k in (1, 3):
                            dbg = wire.packet(bytes([wire.MSG_DEBUG]) + b'\x01' + wire.string('debug message') + wire.string(''))
                            ign = wire.packet(bytes([wire.MSG_IGNORE]) + wire.string('x' * 11))
                            cs.append({'T': T, 'op': 'prefix', 'conn': conn, 'at': label, 'hex': (dbg * k).hex(), 'what': 'debug'})
                            cs.append({'T': T, 'op': 'prefix', 'conn': conn, 'at': label, 'hex': (ign * k).hex(), 'what': 'ignore'})
                        if label == 'kexinit' and conn == 0:
                            # a well-framed packet of ANY other type in front of a valid KEXINIT: only IGNORE (2) and DEBUG (4) may be skipped there
                            for t in (range(256) if tier == 'thorough' else (0, 1, 3, 5, 6, 7, 19, 21, 30, 53, 80, 255)):
                                if t not in (wire.MSG_IGNORE, wire.MSG_DEBUG, wire.MSG_KEXINIT):
                                    cs.append({'T': T, 'op': 'prefix', 'conn': conn, 'at': label, 'hex': wire.packet(bytes([t]) + wire.u32(0) + wire.string('')).hex(), 'what': 'other-type-%d' % t})
                # random mutations
                for i in range(3 if tier == 'quick' else 40):
                    nbytes = rng.choice([1, 1, 2, 4])
                    pos = sorted(rng.sample(range(len(data)), min(nbytes, len(data))))
                    cs.append({'T': T, 'op': 'mutate', 'conn': conn, 'at': label, 'pos': pos, 'vals': [rng.randrange(256) for _ in pos]})
                cs.append({'T': T, 'op': 'random', 'conn': conn, 'at': label, 'seed': rng.randrange(1000)})
                if label == 'gexgroup':
                    # well-framed, well-encoded groups with degenerate numbers: arithmetic, not parsing, has to cope
                    for pv, gv in ((0, 2), (1, 2), (2, 2), (3, 2), (5, 2), (6, 2), (7, 0), (4096, 1), (2 ** 64, 0), (9, 2 ** 70)):
                        cs.append({'T': T, 'op': 'crafted', 'conn': conn, 'at': label, 'what': 'degenerate-group:p=%d,g=%d' % (pv, gv), 'hex': wire.packet(wire.gex_group(pv, gv)).hex()})
                    cs.append({'T': T, 'op': 'crafted', 'conn': conn, 'at': label, 'what': 'negative-p', 'hex': wire.packet(bytes([31]) + wire.mpint(-(2 ** 1023)) + wire.mpint(2)).hex()})
                if label == 'kexreply':
                    for what, blob in (('rsa-zero-modulus', wire.string('ssh-rsa') + wire.mpint(65537) + wire.mpint(0)), ('rsa-empty-e', wire.string('ssh-rsa') + wire.string(b'') + wire.mpint(wire.det_int(2048))),
                                       ('type-only', wire.string('ssh-rsa')), ('empty-blob', b''), ('huge-type', wire.string('x' * 3000)), ('rsa-16384', wire.rsa_blob(16384))):
                        cs.append({'T': T, 'op': 'crafted', 'conn': conn, 'at': label, 'what': 'hostkey:' + what, 'hex': wire.packet(wire.kex_reply(31, blob)).hex()})
                if label == 'banner' and conn == 0:
                    eol = b'\r\n'
                    for what, raw in (('huge-minor-version', b'SSH-2.' + b'1' * 5000 + b'-OpenSSH_9.3' + eol), ('huge-software', b'SSH-2.0-' + b'A' * 9000 + eol), ('long-line-no-newline', b'X' * 9000),
                                      ('huge-openssh-version', b'SSH-2.0-OpenSSH_' + b'9' * 5000 + eol), ('huge-openssh-minor', b'SSH-2.0-OpenSSH_8.' + b'9' * 4400 + b'p1' + eol), ('huge-dropbear-version', b'SSH-2.0-dropbear_2020.' + b'1' * 4400 + eol),
                                      ('huge-libssh-version', b'SSH-2.0-libssh_0.' + b'7' * 4400 + b'.1' + eol), ('zero-padded-version', b'SSH-2.0-OpenSSH_' + b'0' * 4400 + b'8.9' + eol),
                                      ('many-header-lines', b''.join(b'line %d\r\n' % i for i in range(400)) + data), ('nul-bytes', b'\x00' * 64 + data), ('only-newlines', b'\n' * 3000 + data)):
                        cs.append({'T': T, 'op': 'crafted', 'conn': conn, 'at': label, 'what': 'banner:' + what, 'hex': raw.hex()})
                if label == 'pkm':
                    good = wire.ssh1_pkm(0x48, 0x0c, 1024, 768)
                    variants = {'short-payload': good[:20], 'cookie-only': good[:8], 'empty': b'', 'no-masks': good[:-8], 'mpint-bits-huge': good[:12] + b'\xff\xff' + good[14:], 'trailing-bytes': good + b'\0' * 7,
                                'host-bits-zero': good, 'one-byte': b'\x01'}
                    for nm, pl in variants.items():
                        cs.append({'T': T, 'op': 'crafted', 'conn': conn, 'at': label, 'what': 'ssh1-valid-crc:' + nm, 'hex': wire.ssh1_packet(2, pl).hex()})
                    # length fields below the SSH-1 minimum (type byte + CRC = 5): nothing of such a packet may be read as a packet
                    for n in range(0, 5):
                        cs.append({'T': T, 'op': 'crafted', 'conn': conn, 'at': label, 'what': 'ssh1-length-%d' % n, 'hex': (wire.u32(n) + b'\0' * (8 - n % 8) + b'\x02' * n).hex()})
                if label not in ('banner', 'vdiff', 'pkm'):
                    t = data[5]
                    crafted = {'empty-payload': wire.u32(12) + bytes([11]) + b'\0' * 11, 'type-only': wire.packet(bytes([t])), 'type-plus-4': wire.packet(bytes([t]) + b'\0\0\0\1'),
                               'max-pad': wire.u32(1 + 1 + 254) + bytes([254]) + bytes([t]) + b'\0' * 254, 'len-zero': wire.u32(0) + b'\0' * 12, 'len-one': wire.u32(1) + b'\0' * 11}
                    for nm, raw in crafted.items():
                        cs.append({'T': T, 'op': 'crafted', 'conn': conn, 'at': label, 'what': nm, 'hex': raw.hex()})
        # delivery shape of the first connection
        if T != 'T6':
            for n in range(0, 6):
                cs.append({'T': T, 'op': 'pre', 'n': n})
            cs.append({'T': T, 'op': 'segment', 'n': 1})
            cs.append({'T': T, 'op': 'segment', 'n': 3})
            bl = len(msgs['banner'][0])
            for o in sorted({1, 4, 8, bl - 2, bl - 1, bl // 2}):
                cs.append({'T': T, 'op': 'split', 'at': 'banner', 'offset': o})
            if 'kexinit' in msgs:
                for o in (1, 4, 5, 6, 100, len(msgs['kexinit'][0]) - 1):
                    cs.append({'T': T, 'op': 'split', 'at': 'kexinit', 'offset': o})
    # the audited client connects over IPv6 (the listener of a client audit accepts on both families): a well-behaved one, and every 9th fault case of the client transcript
    k6 = 0
    for c_ in list(cs):
        if c_['T'] == 'T6' and not c_.get('default_timeout'):
            k6 += 1
            if c_['op'] == 'none' or k6 % (9 if tier == 'quick' else 3) == 0:
                cs.append(dict(c_, v6=True))
    # the same faults under verbose / debug output (extra code runs on the error paths then); every 4th case, alternating
    out = []
    for i, c in enumerate(cs):
        out.append(c)
        if c['op'] in ('close_before', 'stall_before'):
            # few and structurally important: always under both options
            out.append(dict(c, opts=['-v']))
            out.append(dict(c, opts=['-d']))
        elif i % 4 == 1 and c['op'] in ('truncate', 'patch', 'random', 'crafted', 'dup') and (tier == 'thorough' or i % 8 == 1):
            out.append(dict(c, opts=['-v'] if (i // 4) % 2 == 0 else ['-d']))
    return out


def _v(key, what, **d):
    return {'key': key, 'what': what, 'detail': d}


# what the tool documents as an identification line (C16): non-printable characters inside it are tolerated (shown replaced, flagged)
BANNER_RX = re.compile(rb'^SSH-\d\.\d+-[^ ]+( .*)?$', re.S)


def first_connection_verdict(tx, proto=2):
    """Strict judgement of what the peer actually wrote on a connection: ('ok', kexinit dict) or ('malformed', reason)."""
    pos = 0
    banner = None
    while True:
        nl = tx.find(b'\n', pos)
        if nl < 0:
            return 'malformed', 'no complete identification line'
        line = tx[pos:nl]
        pos = nl + 1
        if line.startswith(b'SSH-'):
            if not BANNER_RX.match(line.rstrip(b'\r')):
                return 'malformed', 'identification line malformed'
            if len(line) > 255:
                return 'dontcare', 'identification line longer than the 255 bytes RFC 4253 allows'
            banner = line
            break
        if pos > 16384:
            return 'malformed', 'too much preamble'
    rest = tx[pos:]
    if proto == 1:
        return 'banner-only', rest
    while True:
        ok, why, total, payload = wire.frame_verdict(rest)
        if not ok:
            return 'malformed', 'frame: ' + why
        rest = rest[total:]
        if payload[0] in (wire.MSG_DEBUG, wire.MSG_IGNORE):
            continue
        if payload[0] != wire.MSG_KEXINIT:
            return 'malformed', 'first packet type %d' % payload[0]
        try:
            return 'ok', wire.parse_kexinit(payload)
        except wire.WireError as e:
            return 'malformed', 'kexinit: ' + str(e)


def ssh1_verdict(tx):
    v, rest = first_connection_verdict(tx, proto=1)
    if v == 'dontcare':
        return 'dontcare', rest
    if v != 'banner-only':
        return 'malformed', rest
    if len(rest) < 4:
        return 'malformed', 'short'
    ln = int.from_bytes(rest[:4], 'big')
    padlen = 8 - ln % 8
    total = 4 + padlen + ln
    if ln < 5 or ln > 100000 or len(rest) < total:
        return 'malformed', 'ssh1 length/incomplete'
    body = rest[4:4 + padlen + ln - 4]
    crc = int.from_bytes(rest[total - 4:total], 'big')
    if wire.ssh1_crc32_fast(body) != crc:
        return 'malformed', 'crc'
    if body[padlen] != 2:
        return 'malformed', 'type %d' % body[padlen]
    data = body[padlen + 1:]
    try:
        off = 8 + 4
        for _ in range(2):
            _x, off = wire.mpint1_decode(data, off)
        off += 4
        for _ in range(2):
            _x, off = wire.mpint1_decode(data, off)
        if len(data) - off != 12:
            return 'malformed', 'pkm trailer'
        cm, am = int.from_bytes(data[off + 4:off + 8], 'big'), int.from_bytes(data[off + 8:off + 12], 'big')
    except Exception as e:
        return 'malformed', 'pkm: %s' % e
    return 'ok', (cm, am)


def build(c):
    s = transcript(c['T'])
    s['linger'] = 8
    if c.get('eager'):
        s['eager'] = True
    op = c['op']
    f = None
    if op in ('truncate',):
        f = {'op': 'truncate', 'offset': c['offset'], 'then': c['then']}
    elif op in ('close_before', 'stall_before', 'dup', 'then_close'):
        f = {'op': op}
    elif op == 'then_reset':
        f = {'op': op, 'pause': c.get('pause', 0.0)}
    elif op == 'patch':
        f = {'op': 'patch', 'offset': c['offset'], 'hex': c['hex']}
    elif op == 'prefix':
        f = {'op': 'prefix', 'hex': c['hex']}
    elif op == 'crafted':
        f = {'op': 'replace', 'hex': c['hex']}
    elif op == 'random':
        f = {'op': 'random', 'seed': c['seed']}
    elif op == 'mutate':
        msg = messages(c['T'])[c['at']][0]
        b = bytearray(msg)
        for p_, v in zip(c['pos'], c['vals']):
            b[p_] = v
        f = {'op': 'replace', 'hex': bytes(b).hex()}
    elif op == 'split':
        f = {'op': 'split', 'offset': c['offset'], 'pause': 0.25}
        c = dict(c, conn=0 if c['T'] != 'T5' or c['at'] != 'banner' else 1)
    elif op == 'pre':
        s['pre'] = ['preamble line %d' % i for i in range(c['n'])]
    elif op == 'presplit':
        s['pre'] = ['preamble line %d' % i for i in range(c['n'])]
        f = {'op': 'split', 'offset': sum(len(x) + 2 for x in s['pre']) + c['cut'], 'pause': 0.25}
    elif op == 'segment':
        s['segment'] = c['n']
    if f is not None:
        f['at'] = c['at']
        f['conn'] = c.get('conn', 0)
        s['faults'] = [f]
    return s


def run_rate(c):
    """Well-formed handshake and host-key probe, then the connections of the rate check misbehave.  Termination on logical measures (CPU), documented status, complete report."""
    import threading
    import time
    k = audit.sym_kex(['curve25519-sha256', 'diffie-hellman-group14-sha256'], ['ssh-ed25519'], ['aes128-ctr'], ['hmac-sha2-256'])
    script = {'banner': 'SSH-2.0-OpenSSH_9.1', 'kex': k, 'hostkeys': {'ssh-ed25519': {'type': 'ed25519'}}, 'gex': None, 'linger': 4, 'finish_wait': 0.5}
    sel = {'ge': 2 + c.get('after', 0)}   # connection 0: handshake, 1: host-key probe, 2..: rate check
    beh = c['beh']
    ops = {'close': [{'op': 'close_before'}], 'reset': [{'op': 'reset_before'}], 'urgent-reset': [{'op': 'urgent_reset_before'}], 'reset-after-banner': [{'op': 'then_reset'}], 'silent': [{'op': 'stall_before'}],
           'garbage': [{'op': 'random', 'seed': 4, 'len': 40}, {'op': 'then_close'}], 'exceeded': [{'op': 'replace', 'hex': b'Exceeded MaxStartups\r\n'.hex()}, {'op': 'then_close'}], 'stop-listening': []}[beh]
    script['faults'] = [dict(o, conn=sel, at='banner') for o in ops]
    pr = peermod.ServerPeer(script)
    if beh == 'stop-listening':
        def stopper():
            end = time.monotonic() + 30
            while time.monotonic() < end and len(pr.conns) < sel['ge']:
                time.sleep(0.002)
            while time.monotonic() < end and pr.open_conns():
                time.sleep(0.002)
            pr.stop_listening()
        threading.Thread(target=stopper, daemon=True).start()
    try:
        r = runner.run_cli(['-n', '-t', '1', pr.target()], monitors=['sockets', 'calls'], timeout=45)
    finally:
        pr.stop()
    viol, counters = [], {}
    nconn = max(1, len(r.mon('connect')))
    entered = any(e['k'] == 'rate-test-enter' for e in (r.monitor or []))
    if r.cpu > 5 + 0.5 * nconn:
        viol.append(_v('C09/cpu-budget:rate-check:' + beh, 'CPU time exceeds 5 s + 0.5 s per connection', cpu=r.cpu, connections=nconn))
    if r.timed_out:
        if not viol:
            return {'verdict': 'inconclusive', 'why': 'watchdog fired without a deterministic hang signature', 'case': c}
        viol.append(_v('C09/hang:rate-check:' + beh, 'audit did not terminate before the watchdog (busy: the CPU budget is exceeded as well)', wall=r.wall, cpu=r.cpu))
        return {'violations': viol, 'counters': counters, 'nontrivial': True}
    if not entered:
        return {'verdict': 'inconclusive', 'why': 'rate check not reached: status %s' % r.status}
    counters['rate_check_runs'] = 1
    counters['faults_applied'] = 1 if (pr.count('fault') > 0 or beh == 'stop-listening') else 0
    counters['recv_events'] = len(r.mon('recv'))
    txt = r.out + r.err
    rep = report.parse_text(r.out)
    if r.status not in (0, 1, 2, 3):
        frames = re.findall(r'File "[^"]*/ssh_audit/(\w+)\.py", line \d+, in (\w+)', txt)
        viol.append(_v('C09/uncaught:rate-check@%s' % ('%s.%s' % frames[-1] if frames else '?'), 'the audit ended through an uncaught exception / the internal error status', status=r.status, tail=txt[-500:]))
    elif r.status == 1 or not rep.has_alg_lines() or {cat: rep.names(cat) for cat in ('kex', 'key', 'enc', 'mac')} != {'kex': k['kex'], 'key': k['key'], 'enc': k['enc_sc'], 'mac': k['mac_sc']}:
        viol.append(_v('C09/no-report-for-wellformed-handshake:rate-check:' + beh, 'handshake and probes were well-formed, only the rate-check connections misbehaved, but the report is missing or incomplete', status=r.status, tail=r.out[-300:]))
    else:
        counters['expected_report'] = 1
    return {'violations': viol, 'counters': counters, 'nontrivial': True, 'sample': {'case': c, 'status': r.status, 'connections': nconn, 'cpu': round(r.cpu, 2)}, 'sample_kind': 'T7' + beh}


def run_differ(c):
    """A peer that answers every connection - the SSH-2 attempt and the SSH-1 fall-back alike - with its banner and 'Protocol major versions differ.': one fall-back, a reported error, a documented status."""
    script = {'banner': c['banner'], 'proto': 1}
    if c.get('serves_ssh1'):
        # ... or would serve protocol 1 on a second connection - which the user excluded with -2: the refusal of the only permitted protocol is the end of the audit
        script['ssh1'] = {'cmask': 0x48, 'amask': 0x0c}
    r, p = audit.audit_server(script, ['-n', '-t', '2'] + list(c.get('opts', [])), monitors=['sockets'], base=['--skip-rate-test'], timeout=60)
    viol, counters = [], {'fallback_refused_again': 1, 'recv_events': len(r.mon('recv'))}
    if r.timed_out:
        return {'verdict': 'inconclusive', 'why': 'watchdog', 'case': c}
    txt = r.out + r.err
    if r.status not in (0, 1, 2, 3):
        frames = re.findall(r'File "[^"]*/ssh_audit/(\w+)\.py", line \d+, in (\w+)', txt)
        viol.append(_v('C09/uncaught:fallback-refused-again@%s' % ('%s.%s' % frames[-1] if frames else '?'), 'the audit ended through an uncaught exception / the internal error status', status=r.status, tail=txt[-400:]))
    elif r.status != 1 or report.parse_text(r.out).has_alg_lines():
        viol.append(_v('C09/report-for-malformed-handshake:fallback-refused-again', 'no connection delivered algorithm lists, yet the audit shows a report / a findings status', status=r.status, tail=r.out[-300:]))
    if c.get('serves_ssh1') and len(p.conns) > 1:
        viol.append(_v('C09/fallback-to-excluded-protocol', 'with -2 the audit fell back to protocol 1 on a second connection', connections=len(p.conns)))
    if len(p.conns) > 2:
        viol.append(_v('C09/fallback-repeated', 'the SSH-1 fall-back was taken more than once', connections=len(p.conns)))
    return {'violations': viol, 'counters': counters, 'nontrivial': len(p.conns) >= 1, 'sample': {'case': c, 'status': r.status, 'connections': len(p.conns)}, 'sample_kind': 'differ'}


def run_case(c):
    if c['op'] == 'rate':
        return run_rate(c)
    if c['op'] == 'differ-again':
        return run_differ(c)
    s = build(c)
    T = c['T']
    mon = ['sockets']
    if T == 'T6':
        port = audit.free_port()
        cp = peermod.ClientPeer(s, port, host='::1' if c.get('v6') else '127.0.0.1')   # the listener accepts on both families
        r = runner.run_cli(['-c', '-p', str(port), '-n'] + ([] if c.get('default_timeout') else ['-t', '2']) + list(c.get('opts', [])), timeout=40 if c.get('default_timeout') else 90, monitors=mon)
        cp.stop()
        p = cp
        if 'failed to listen' in r.err:
            return {'verdict': 'inconclusive', 'why': 'port taken'}
        if cp.count('connected') == 0:
            return {'verdict': 'inconclusive', 'why': 'client peer never connected'}
        tmo = 5.0 if c.get('default_timeout') else 2.0
    else:
        r, p = audit.audit_server(s, ['-n'] + ([] if c.get('default_timeout') else ['-t', '1']) + list(c.get('opts', [])), monitors=mon, timeout=40 if c.get('default_timeout') else 120)
        tmo = 5.0 if c.get('default_timeout') else 1.0
    viol, counters = [], {}
    if c.get('v6'):
        counters['clients_connecting_over_ipv6'] = 1
    if c.get('eager') and c['op'] == 'then_reset' and 'cannot connect to' in (r.out + r.err):
        # the reset overtook the completion of connect(): the connection attempt itself failed, nothing the peer said was delivered to the tool - not a case of this property
        return {'violations': [], 'counters': {'eager_reset_lost_at_connect': 1}, 'nontrivial': False, 'sample': {'case': c, 'status': r.status}, 'sample_kind': 'lost-at-connect'}
    if c.get('default_timeout'):
        counters['default_timeout_runs'] = 1
    applied = p.count('fault') > 0 or c['op'] in ('none', 'pre', 'segment')
    counters['faults_applied'] = 1 if p.count('fault') > 0 else 0
    recvs = r.mon('recv')
    counters['recv_events'] = len(recvs)
    nconn = max(1, len(r.mon('connect')) + len(r.mon('accept-call')))
    if c['op'] == 'truncate' and c.get('then') == 'stall' or c['op'] == 'stall_before':
        counters['stall_cases'] = 1
    if c.get('conn') in (1, 2, 'probe') and T != 'T5':
        counters['probe_phase_faults'] = 1
    # ------------------------------------------------------------ (b) bounded progress
    no_to = [e for e in recvs if e.get('timeout') is None]
    wrong_to = [e for e in recvs if e.get('timeout') is not None and abs(e['timeout'] - tmo) > 1e-6]
    if no_to:
        viol.append(_v('C09/blocking-receive-without-timeout', 'a blocking receive ran without a timeout', n=len(no_to)))
    if wrong_to:
        viol.append(_v('C09/receive-timeout-not-configured-value', 'a receive ran under a timeout different from the configured one', got=wrong_to[0]['timeout'], want=tmo))
    n_timeouts = sum(1 for e in recvs if e.get('out') == 'timeout')
    if n_timeouts > 4 * nconn:
        viol.append(_v('C09/too-many-timeouts', 'more timed-out receives than 4 per connection', timeouts=n_timeouts, connections=nconn))
    if r.cpu > 5 + 0.5 * nconn:
        viol.append(_v('C09/cpu-budget', 'CPU time exceeds 5 s + 0.5 s per connection', cpu=r.cpu, connections=nconn))
    if r.timed_out:
        if not viol:
            return {'verdict': 'inconclusive', 'why': 'watchdog fired without a deterministic hang signature', 'case': c}
        viol.append(_v('C09/hang', 'audit did not terminate before the watchdog', wall=r.wall))
        return {'violations': viol, 'counters': counters, 'nontrivial': True}
    # ------------------------------------------------------------ (a) documented status, no traceback
    txt = r.out + r.err
    # (a traceback printed by a handler that then ends the audit with a documented status is a reported error, not an uncaught one)
    if r.status not in (0, 1, 2, 3):
        m = re.findall(r'^(\w+(?:\.\w+)*(?:Error|Exception|Exit))\b', txt, re.M)
        frames = re.findall(r'File "[^"]*/ssh_audit/(\w+)\.py", line \d+, in (\w+)', txt)
        where = '%s.%s' % frames[-1] if frames else '?'
        exc = (m[-1].split('.')[-1] if m else 'status%s' % r.status)
        viol.append(_v('C09/uncaught:%s@%s' % (exc, where), 'the audit ended through an uncaught exception / the internal error status', status=r.status, tail=txt[-700:], fault={k: v for k, v in c.items() if k != 'hex' or len(str(v)) < 80}))
        return {'violations': viol, 'counters': counters, 'nontrivial': applied}
    # ------------------------------------------------------------ (c) report clause
    if T == 'T5':
        conn = p.conns[1] if len(p.conns) > 1 else None
        v0 = first_connection_verdict(p.conns[0].tx, proto=1)[0] if p.conns else 'malformed'
        verdict, info = ssh1_verdict(conn.tx) if (conn is not None and v0 == 'banner-only' and p.conns[0].tx.endswith(b'Protocol major versions differ.\n')) else (('dontcare', '') if v0 == 'dontcare' else ('malformed', 'first connection'))
        if c['op'] != 'none' and c.get('at') == 'vdiff':
            verdict = 'dontcare'  # what an SSH-1-only server says to an SSH-2 client is not specified
    else:
        conn = p.conns[0] if p.conns else None
        verdict, info = first_connection_verdict(conn.tx) if conn is not None else ('malformed', 'no connection')
    is_verbose = '-v' in c.get('opts', [])
    rep = report.parse_text(r.out, verbose=is_verbose)
    if verdict == 'ok':
        counters['expected_report'] = 1
        if r.status == 1 or not rep.has_alg_lines():
            how = 'first-connection' if c.get('conn', 0) in (0, '*') and c['op'] not in ('none',) and T != 'T5' or (T == 'T5') else 'probe-phase'
            shape = c['op'] + (':' + c.get('what', '') if c.get('what') else '') + (':' + c['at'] if c.get('at') else '')
            tail = r.out.strip().split('\n')[-1][:80]
            viol.append(_v('C09/no-report-for-wellformed-handshake:%s:%s' % (how, shape), 'the first connection was well-formed but the audit shows no report', status=r.status, last_line=tail, fault={k: v for k, v in c.items() if k != 'hex'}))
        elif T != 'T5':
            k = {f: [x.decode('utf-8', 'replace') for x in info[f]] for f in wire.KEX_FIELDS}
            want = {'kex': k['kex'], 'key': k['key'], 'enc': k['enc_sc'], 'mac': k['mac_sc']}
            got = {cat: rep.names(cat) for cat in want}
            if is_verbose:   # verbose rendering repeats the name on every note line: compare after merging consecutive repeats
                got = {cat: c01.merge_consecutive(v) for cat, v in got.items()}
                want = {cat: c01.merge_consecutive(v) for cat, v in want.items()}
            # names the mutation made RFC-illegal (control characters, spaces, non-ASCII) are outside what a report can list faithfully: only presence of a report is demanded then
            legal = all(0x21 <= ord(ch) <= 0x7e for cat in want for x in want[cat] for ch in x)
            if legal and got != {cat: [x for x in want[cat] if x.strip()] for cat in want}:
                viol.append(_v('C09/report-incomplete', 'report names differ from the KEXINIT that was delivered', got=got, want=want))
        else:
            ciphers, auths = wire.ssh1_names(*info)
            if rep.names('enc') != ciphers or rep.names('aut') != auths:
                viol.append(_v('C09/report-incomplete:ssh1', 'SSH-1 report differs from the masks delivered', got=[rep.names('enc'), rep.names('aut')]))
    elif verdict == 'malformed':
        counters['expected_error'] = 1
        if r.status != 1 or rep.has_alg_lines():
            reason = re.sub(r'\d+', 'N', str(info))[:60]
            viol.append(_v('C09/report-for-malformed-handshake:%s' % reason, 'the first connection was not well-formed but the audit shows a report / not status 1', status=r.status, reason=str(info), fault={k: v for k, v in c.items() if k != 'hex'},
                           has_report=rep.has_alg_lines()))
    return {'violations': viol, 'counters': counters, 'nontrivial': applied and len(recvs) > 0,
            'sample': {'case': {k: v for k, v in c.items() if k != 'hex' or len(str(v)) < 60}, 'status': r.status, 'first_connection': verdict, 'recv_events': len(recvs), 'timeouts': n_timeouts, 'cpu': round(r.cpu, 2)},
            'sample_kind': c['T'] + c['op']}


def extra_evidence(results):
    """What the monitors saw, per transcript and operator: outcomes, receive events, timeouts."""
    by = {}
    for r in results:
        smp = r.get('sample') or {}
        c = r.get('case') or {}
        k = '%s/%s' % (c.get('T'), c.get('op'))
        d = by.setdefault(k, {'cases': 0, 'status': {}, 'first_connection': {}, 'recv_events': 0, 'timeouts': 0})
        d['cases'] += 1
        st = str(smp.get('status'))
        d['status'][st] = d['status'].get(st, 0) + 1
        fc = str(smp.get('first_connection'))
        d['first_connection'][fc] = d['first_connection'].get(fc, 0) + 1
        d['recv_events'] += smp.get('recv_events') or 0
        d['timeouts'] += smp.get('timeouts') or 0
    return {'observed_by_transcript_and_operator': by}
