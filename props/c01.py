"""C01 - the report lists exactly the algorithms the peer advertised."""
import json
import random

from harness import audit, gen, report, wire

ID = 'C01'
LEVEL = 'exploration'
SHARDS = 16
THREADS = 2
RULE = ('one case = one real audit of a scripted peer whose KEXINIT (or SSH-1 public key message) was generated: names from the live database, gss-* instantiations with base64 suffixes '
        '(=,+,/), unknown, very long (200-3900 bytes), punctuation and non-UTF-8 names, duplicates, single-element and empty lists; server role and client role (-c); plain, batch, '
        'verbose and JSON renderings; SSH-1 cipher/authentication masks; probes answered or refused.  Oracle: per category the reported name sequence equals the advertised non-empty '
        'names (UTF-8 decoded with replacement), banner and compression equal what was sent.  A case is non-trivial when the audit completed and at least one category list was compared; '
        'distinct = distinct (KEXINIT, role, rendering) specifications')
REQUIRED = {'kexinit_padding_128_or_more': 4, 'ssh1_padding_8': 2, 'ssh1_padding_1': 2, 'client_text_vs_json_direction_checks': 2, 'compression_lists_without_none': 10, 'audits_completed': 50, 'names_compared': 500, 'client_role': 5, 'json_runs': 10, 'ssh1_runs': 5, 'special_names': 20}
ASSUMPTIONS = ['verbose rendering repeats the name on every note line, so consecutive identical names are compared after merging (multiplicity is checked exactly in plain, batch and JSON renderings)',
               'client role with asymmetric direction lists: the report must equal one of the two directions (the statement does not say which)',
               'names containing space, comma or control characters are outside the quantifier (RFC 4251 forbids them)']
MANIFEST = {
    'text': 'Exploration: hundreds (quick) / thousands (thorough) of generated KEXINIT and SSH-1 messages are put on a real loopback socket by a scripted peer and the real CLI report is compared, per category and in order, with the bytes the peer sent; holds on the messages generated.',
    'note': 'Ground truth is what the peer wrote to the socket; trusts harness/report.py (text/JSON parsers) and harness/wire.py.',
    'technique': 'boundary monitoring of real audits against the peer\'s ground truth (sequence-equality oracle per category), across roles and renderings',
}
RENDER = {'plain': ['-n'], 'batch': ['-n', '-b'], 'verbose': ['-n', '-v'], 'json': ['-j'], 'color': []}


def cases(tier, seed):
    rng = random.Random(seed * 13 + 1)
    cs = []
    n_srv = 30 if tier == 'quick' else 500
    profiles = ['db', 'mixed', 'special', 'dups', 'tiny', 'big', 'hugeutf8']
    for i in range(n_srv):
        prof = profiles[i % len(profiles)]
        s = rng.randrange(1 << 30)
        for rnd in ('plain', 'batch', 'verbose', 'json'):
            # every third peer pads its KEXINIT with 128..255 bytes (RFC 4253 allows 4..255; peers that hide message sizes do)
            cs.append({'kind': 'server', 'seed': s, 'profile': prof, 'render': rnd, 'probes': i % 2 == 0, 'pad': [128, 161, 255, 200, 132, 248][(i // 3) % 6] if i % 3 == 1 else 0})
    n_cli = 8 if tier == 'quick' else 120
    for i in range(n_cli):
        s = rng.randrange(1 << 30)
        for rnd in ('plain', 'batch', 'verbose', 'json'):
            cs.append({'kind': 'client', 'seed': s, 'profile': profiles[i % 3], 'render': rnd, 'sym': i % 4 != 3, 'pad': [0, 0, 136, 255][i % 4]})
    # every table name at least once (thorough: in every position class)
    names = audit.db_names()
    allnames = [(c, n) for c in ('kex', 'key', 'enc', 'mac') for n in names[c]]
    per = 12
    pos = ['first'] if tier == 'quick' else ['first', 'middle', 'last', 'alone']
    for p in pos:
        for i in range(0, len(allnames), per):
            if tier == 'quick' and (i // per) % 4 != seed % 4:
                continue
            cs.append({'kind': 'cover', 'names': allnames[i:i + per], 'pos': p, 'seed': rng.randrange(1 << 30), 'render': ['plain', 'json'][(i // per) % 2]})
    masks = [(c, a) for c in range(128) for a in range(0, 128, 2)]
    if tier == 'quick':
        masks = rng.sample(masks, 36) + [(0x48, 0x0c), (0x7f, 0x7e), (1, 2), (0, 0x0c), (0x48, 0)] + [(m, m) for m in (0x48, 0x0c, 0x7e, 2, 0x40, 0x24)]   # equal masks: two different tables are indexed by the same number
    for i, (cm, am) in enumerate(masks):
        # host keys of eight consecutive byte lengths: the packet length takes every residue modulo 8, i.e. every padding length 1..8
        cs.append({'kind': 'ssh1', 'cmask': cm, 'amask': am, 'render': ['plain', 'json'][i % 2], 'host_bits': 1024 + 8 * ((i // 2) % 8), 'server_bits': [768, 776, 1024][i % 3]})
    return cs


def _v(key, what, **d):
    return {'key': key, 'what': what, 'detail': d}


def build_kex(c):
    k = _build_kex(c)
    # the fields after the eight reported lists: language lists (usually empty, here sometimes not and different per direction), first_kex_packet_follows, the reserved word, the cookie
    rng = random.Random(c['seed'] ^ 0x5a5a)
    v = rng.randrange(4)
    if v == 1:
        k['lang_cs'], k['lang_sc'] = ['en-US'], ['en-US', 'de-DE']
    elif v == 2:
        k['lang_cs'], k['lang_sc'], k['follows'] = ['i-default'], [], True
    elif v == 3:
        k['follows'], k['reserved'] = True, rng.getrandbits(32)
    k['cookie'] = rng.randbytes(16).hex()
    # compression lists that do not contain "none", repeat a name, or hold a name nobody knows (the generator's own lists always contain "none")
    w = rng.randrange(8)
    if w < 4:
        k['comp_sc'] = [['zlib@openssh.com'], ['zlib', 'zlib@openssh.com'], ['zlib@openssh.com', 'none', 'none'], ['lz4@example.com', 'zlib']][w]
        k['comp_cs'] = list(k['comp_sc'])
    return k


def _build_kex(c):
    rng = random.Random(c['seed'])
    names = audit.db_names()
    prof = c['profile']
    if prof == 'db':
        return gen.random_kex(rng, names, {'db': 1}, (1, 14))
    if prof == 'mixed':
        return gen.random_kex(rng, names, {'db': 8, 'gss': 2, 'unknown': 2, 'dup': 1}, (1, 12))
    if prof == 'special':
        return gen.random_kex(rng, names, {'db': 5, 'gss': 2, 'unknown': 1, 'long': 1, 'punct': 1, 'nonutf8': 1.5, 'empty': 0.8}, (1, 8))
    if prof == 'dups':
        return gen.random_kex(rng, names, {'db': 3, 'dup': 3, 'gss': 1}, (2, 8))
    if prof == 'tiny':
        return gen.random_kex(rng, names, {'db': 4, 'unknown': 1}, (1, 1), allow_empty=True)
    if prof == 'big':
        return gen.random_kex(rng, names, {'db': 1}, (25, 60))
    if prof == 'hugeutf8':
        # name-lists of 8-20 kB made of long names full of two- and three-byte characters, at both parities: whatever block size a reader uses, some character straddles a block boundary
        k = gen.random_kex(rng, names, {'db': 1}, (1, 4))
        def big(pre, ch, n, suf):
            return pre + ch * n + suf
        for cat in ('kex', 'key', 'enc_sc', 'mac_sc'):
            extra = [big('x', '\u00e9', rng.choice([2100, 3000]), '@example.com'), big('xy', '\u00e9', rng.choice([2100, 3000]), '@example.org'), big('z', '\u4e2d', rng.choice([1400, 2800]), '-v1'), big('zz', '\u4e2d', 1400, ''), big('zzz', '\u4e2d', 1400, '')]
            k[cat] = k[cat][:1] + rng.sample(extra, 3) + k[cat][1:]
        k['enc_cs'], k['mac_cs'] = k['enc_sc'], k['mac_sc']
        return k
    raise ValueError(prof)


def expected_lists(k, client=False):
    return {'kex': [wire.shown(x) for x in k['kex'] if wire.shown(x).strip()], 'key': [wire.shown(x) for x in k['key'] if wire.shown(x).strip()],
            'enc': [wire.shown(x) for x in k['enc_sc'] if wire.shown(x).strip()], 'mac': [wire.shown(x) for x in k['mac_sc'] if wire.shown(x).strip()]}


def merge_consecutive(lst):
    out = []
    for x in lst:
        if not out or out[-1] != x:
            out.append(x)
    return out


def name_class(n):
    raw = wire.nb(n)
    if any(b >= 0x80 for b in raw):
        return 'nonutf8'
    if len(raw) >= 200:
        return 'long'
    if n.startswith('gss-') and n.endswith('=='):
        return 'gss'
    return None


def compare_report(c, r, k, banner, viol, counters, client=False, alt=None):
    render = c['render']
    exp = expected_lists(k)
    exp_alt = None
    if alt is not None:
        exp_alt = {'kex': exp['kex'], 'key': exp['key'], 'enc': [wire.shown(x) for x in alt['enc'] if wire.shown(x).strip()], 'mac': [wire.shown(x) for x in alt['mac'] if wire.shown(x).strip()]}
    comp = [wire.shown(x) for x in k['comp_sc']]
    if render == 'json':
        counters['json_runs'] = 1
        try:
            doc = json.loads(r.out)
        except ValueError:
            viol.append(_v('C01/json-unparsable', 'stdout of a -j audit is not one JSON document', out=r.out[:300]))
            return
        got = {}
        for cat in ('kex', 'key', 'enc', 'mac'):
            v = report.json_names(doc, cat)
            got[cat] = None if v is None else [x for x in v if x.strip()]
        if doc.get('compression') != comp:
            viol.append(_v('C01/compression:json', 'JSON compression differs from the list sent', got=doc.get('compression'), want=comp))
        if (doc.get('banner') or {}).get('raw') != banner:
            viol.append(_v('C01/banner:json', 'JSON banner differs', got=(doc.get('banner') or {}).get('raw'), want=banner))
    else:
        rep = report.parse_text(r.out, verbose=(render == 'verbose'))
        got = {cat: rep.names(cat) for cat in ('kex', 'key', 'enc', 'mac')}
        if rep.gen_value('banner') != banner:
            viol.append(_v('C01/banner:text', 'banner line differs', got=rep.gen_value('banner'), want=banner))
        nz = [x for x in comp if x != 'none']
        want_comp = 'enabled (%s)' % ', '.join(nz) if nz else 'disabled'
        if rep.gen_value('compression') != want_comp:
            viol.append(_v('C01/compression:text', 'compression line differs', got=rep.gen_value('compression'), want=want_comp))
        if rep.other:
            extra = [l for l in rep.other if not l.startswith('Starting audit') and not l.startswith('Listening for client')]
            if extra and render != 'verbose':
                viol.append(_v('C01/unparsed-lines', 'report contains lines that are not part of any section', lines=extra[:5]))
    for cat in ('kex', 'key', 'enc', 'mac'):
        want = exp[cat]
        g = got[cat]
        if g is None:
            viol.append(_v('C01/category-missing:%s:%s' % (cat, render), 'category absent from the report', want=want[:10]))
            continue
        if render == 'verbose':
            g, want = merge_consecutive(g), merge_consecutive(want)
        counters['names_compared'] = counters.get('names_compared', 0) + len(want)
        ok = g == want
        if not ok and exp_alt is not None:
            w2 = merge_consecutive(exp_alt[cat]) if render == 'verbose' else exp_alt[cat]
            ok = g == w2
        if not ok:
            sg, sw = set(g), set(want)
            if sw - sg:
                how = 'dropped'
            elif sg - sw:
                how = 'invented'
            elif sorted(g) == sorted(want):
                how = 'reordered'
            else:
                how = 'multiplicity'
            special = sorted({name_class(n) or 'plain' for n in (sw ^ sg)}) or ['plain']
            viol.append(_v('C01/names-%s:%s:%s:%s' % (how, cat, render, special[0]), 'reported names differ from the advertised ones', got=[x[:80] for x in g[:30]], want=[x[:80] for x in want[:30]]))
    if 'none' not in k['comp_sc']:
        counters['compression_lists_without_none'] = counters.get('compression_lists_without_none', 0) + 1
    counters['special_names'] = counters.get('special_names', 0) + sum(1 for cat in exp for n in exp[cat] if name_class(n))


def run_server(c):
    k = build_kex(c) if c['kind'] == 'server' else c['_kex']
    if c['kind'] == 'server' and c['seed'] % 4 == 0:
        # a server may advertise different lists per direction: the report is about the server-to-client lists, whatever the other direction holds
        rr = random.Random(c['seed'] + 3)
        nm = audit.db_names()
        k['enc_cs'] = gen.pick_names(rr, 'enc', nm, rr.randint(1, 5), {'db': 1})
        k['mac_cs'] = gen.pick_names(rr, 'mac', nm, rr.randint(1, 5), {'db': 1})
        k['comp_cs'] = ['zlib'] if k['comp_sc'] != ['zlib'] else ['none']
    banner = 'SSH-2.0-OpenSSH_8.%d' % (random.Random(c['seed']).randint(0, 9))
    hk = gen.hostkeys_for(k['key']) if c.get('probes', True) else {}
    script = {'banner': banner, 'kex': k, 'hostkeys': hk, 'hostkey_default': None, 'gex': {'sizes': [3072, 4096], 'style': 'strict'} if c.get('probes', True) else None}
    if c.get('pad'):
        script['kexinit_pad'] = c['pad']
    r, p = audit.audit_server(script, RENDER[c['render']])
    viol, counters = [], {}
    if r.status not in (0, 2, 3):
        viol.append(_v('C01/audit-failed:status%s:%s' % (r.status, classify_failure(r, k)), 'audit of a well-formed peer did not produce a report', status=r.status, out=r.out[-600:], err=r.err[-300:]))
        return viol, counters
    counters['audits_completed'] = 1
    counters['kexinit_padding_128_or_more'] = 1 if c.get('pad', 0) >= 128 else 0
    compare_report(c, r, k, banner, viol, counters)
    return viol, counters


def classify_failure(r, k):
    txt = r.out + r.err
    if 'KeyError' in txt and '_add_terrapin_warning' in txt:
        return 'terrapin-keyerror'
    if 'Traceback' in txt:
        import re
        m = re.findall(r'^(\w+(?:Error|Exception))', txt, re.M)
        return 'traceback:' + (m[-1] if m else '?')
    return 'other'


def run_client(c):
    rng = random.Random(c['seed'])
    k = build_kex(c)
    alt = None
    if not c.get('sym', True):
        names = audit.db_names()
        k['enc_cs'] = gen.pick_names(rng, 'enc', names, rng.randint(1, 6), {'db': 1})
        k['mac_cs'] = gen.pick_names(rng, 'mac', names, rng.randint(1, 6), {'db': 1})
        # compression differs per direction as well; for it the statement is unambiguous ("as sent"): text and JSON both show the list the JSON field carries (server-to-client)
        k['comp_cs'] = rng.choice([['none'], ['zlib@openssh.com', 'none'], ['zlib']]) if k['comp_sc'] != ['none'] else ['zlib@openssh.com', 'zlib', 'none']
        if k['comp_cs'] == k['comp_sc']:
            k['comp_cs'] = ['none', 'zlib']
        alt = {'enc': k['enc_cs'], 'mac': k['mac_cs']}
    banner = 'SSH-2.0-OpenSSH_9.%d' % rng.randint(0, 9)
    script = {'banner': banner, 'kex': k}
    if c.get('pad'):
        script['kexinit_pad'] = c['pad']
    r, p = audit.audit_client(script, RENDER[c['render']])
    viol, counters = [], {}
    if p.count('connected') == 0:
        return None, {'why': 'client peer could not connect: %s' % r.brief(300)}
    if r.status not in (0, 2, 3):
        viol.append(_v('C01/audit-failed:client:status%s:%s' % (r.status, classify_failure(r, k)), 'client audit of a well-formed peer did not produce a report', status=r.status, out=r.out[-600:], err=r.err[-300:]))
        return viol, counters
    counters['audits_completed'] = 1
    counters['kexinit_padding_128_or_more'] = 1 if c.get('pad', 0) >= 128 else 0
    counters['client_role'] = 1
    compare_report(c, r, k, banner, viol, counters, client=True, alt=alt)
    if alt is not None and c['render'] in ('plain', 'json'):
        # with lists that differ per direction either direction is a defensible reading of "the names the peer advertised" - but the text and the JSON report of the same client must show the same one
        other = 'json' if c['render'] == 'plain' else 'plain'
        r2, p2 = audit.audit_client(script, RENDER[other])
        if p2.count('connected') and r2.status in (0, 2, 3):
            def names(rr, render):
                if render == 'json':
                    try:
                        doc = json.loads(rr.out)
                    except ValueError:
                        return None
                    return {cat: [x for x in (report.json_names(doc, cat) or []) if x.strip()] for cat in ('enc', 'mac')}
                rep = report.parse_text(rr.out)
                return {cat: rep.names(cat) for cat in ('enc', 'mac')}
            a, b = names(r, c['render']), names(r2, other)
            counters['client_text_vs_json_direction_checks'] = 1
            if a is not None and b is not None and a != b:
                viol.append(_v('C01/client-renderings-show-different-directions', 'the text and the JSON report of the same client list different cipher/MAC names', text=a if c['render'] == 'plain' else b, json=b if c['render'] == 'plain' else a))
    return viol, counters


def run_cover(c):
    """Every table name appears in a report when advertised (position classes)."""
    rng = random.Random(c['seed'])
    names = audit.db_names()
    lists = {'kex': [], 'key': [], 'enc': [], 'mac': []}
    for cat, n in c['names']:
        lists[cat].append(n)
    for cat in lists:
        filler = [x for x in names[cat] if x not in lists[cat] and not x.endswith('-*')]
        if c['pos'] == 'alone':
            lists[cat] = lists[cat][:1] or [rng.choice(filler)]
        elif c['pos'] == 'first':
            lists[cat] = lists[cat] + rng.sample(filler, 2)
        elif c['pos'] == 'last':
            lists[cat] = rng.sample(filler, 2) + lists[cat]
        else:
            f = rng.sample(filler, 4)
            lists[cat] = f[:2] + lists[cat] + f[2:]
        lists[cat] = [audit.gss_instance(rng, x) if x.endswith('-*') and x.startswith('gss-') else x for x in lists[cat]]
    if not any(x in gen.PROBE_KEX for x in lists['kex']):
        lists['kex'].append('curve25519-sha256')
    c2 = dict(c, _kex=audit.sym_kex(lists['kex'], lists['key'], lists['enc'], lists['mac']), probes=False)
    return run_server(c2)


def run_ssh1(c):
    script = {'banner': 'SSH-1.5-OpenSSH_1.2.3', 'proto': 1, 'ssh1': {'cmask': c['cmask'], 'amask': c['amask'], 'host_bits': c.get('host_bits', 2048), 'server_bits': c.get('server_bits', 768), 'random_pad': c.get('host_bits', 0) % 16 == 0}}   # every other SSH-1 peer fills its padding with non-zero bytes ("random data")
    r, p = audit.audit_server(script, RENDER[c['render']])
    viol, counters = [], {'ssh1_runs': 1}
    plen = len(wire.ssh1_pkm(c['cmask'], c['amask'], c.get('host_bits', 2048), c.get('server_bits', 768))) + 5
    counters['ssh1_padding_%d' % (8 - plen % 8)] = 1
    ciphers, auths = wire.ssh1_names(c['cmask'], c['amask'])
    if r.status not in (0, 2, 3):
        why = 'empty-mask' if (not ciphers or not auths) else 'other'
        viol.append(_v('C01/ssh1-audit-failed:status%s:%s' % (r.status, why), 'SSH-1 audit of a well-formed public key message did not produce a report', status=r.status, out=r.out[-500:], cmask=c['cmask'], amask=c['amask']))
        return viol, counters
    counters['audits_completed'] = 1
    if c['render'] == 'json':
        counters['json_runs'] = 1
        try:
            doc = json.loads(r.out)
        except ValueError:
            viol.append(_v('C01/json-unparsable:ssh1', 'stdout of a -j SSH-1 audit is not one JSON document', out=r.out[:300]))
            return viol, counters
        if doc.get('enc') != ciphers or doc.get('aut') != auths:
            viol.append(_v('C01/ssh1-json-lists:' + ('null' if doc.get('enc') is None else 'differ'), 'SSH-1 JSON enc/aut differ from the masks', got=[doc.get('enc'), doc.get('aut')], want=[ciphers, auths]))
    else:
        rep = report.parse_text(r.out)
        if rep.names('enc') != ciphers or rep.names('aut') != auths:
            viol.append(_v('C01/ssh1-text-lists', 'SSH-1 report enc/aut differ from the masks', got=[rep.names('enc'), rep.names('aut')], want=[ciphers, auths]))
        if rep.names('key') != ['ssh-rsa1']:
            viol.append(_v('C01/ssh1-text-key', 'SSH-1 host key line missing', got=rep.names('key')))
    counters['names_compared'] = len(ciphers) + len(auths)
    return viol, counters


def run_case(c):
    fn = {'server': run_server, 'client': run_client, 'cover': run_cover, 'ssh1': run_ssh1}[c['kind']]
    viol, counters = fn(c)
    if viol is None:
        return {'verdict': 'inconclusive', 'why': counters.get('why')}
    return {'violations': viol, 'counters': counters, 'nontrivial': counters.get('audits_completed', 0) > 0 and counters.get('names_compared', 0) > 0,
            'sample': {'case': {k: v for k, v in c.items() if k != '_kex'}, 'observed': counters}, 'sample_kind': c['kind'] + ':' + c['render']}
