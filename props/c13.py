"""C13 - recommendations are consistent with the ratings shown."""
import json
import random

from harness import audit, gen, report

ID = 'C13'
LEVEL = 'exploration'
SHARDS = 16
THREADS = 2
RULE = ('one case = one real audit of a generated peer (random and boundary name lists over the live database, optionally with host-key / group-exchange sizes that add dynamic notes, Terrapin contexts, gss and unknown names) '
        'under a banner of OpenSSH, Dropbear or libssh at a version equal to / just below / just above a first-appeared version of the database, or TinySSH, PuTTY, an unknown product or no software string; text (colour) and JSON.  '
        'Oracle, relational inside the same report plus first-appeared facts read from the live table: removals/changes subset of advertised-and-rated, rated names known in the identified version are recommended unless the report '
        'says they are outside the operator\'s control, critical <=> has a failure note, additions are unadvertised / clean / not certificate, security-key or pseudo algorithms / available in the identified version, nothing both ways, '
        'unrecognised software gets no additions.  Non-trivial: the report carried >= 1 recommendation or >= 1 rated algorithm; distinct = distinct (peer, banner, rendering)')
REQUIRED = {'multi_target_version_mix_entries': 6, 'categories_with_only_changes': 3, 'multi_target_entries': 8, 'audits_completed': 100, 'recs_checked': 500, 'rated_names_checked': 300, 'additions_checked': 100, 'unrecognised_software': 10, 'json_runs': 30}
ASSUMPTIONS = ['"known in the identified version" = the database does not say the algorithm appeared later or only in another product (entries without version information count as known)',
               'version order is numeric (C14 model); when one version is a strict prefix of the other the comparison is don\'t-care',
               'client audits are not part of this property (recommendations are addressed to server operators)']
MANIFEST = {
    'text': 'Exploration: hundreds (quick) / thousands (thorough) of generated peers under banners around every first-appeared version; the recommendation section of each real report is checked against the ratings in the same report and the first-appeared facts of the live table.',
    'note': 'Relational oracle within one execution plus live-table facts (read at run time, never frozen); trusts report parsers and the numeric version model of C14.',
    'technique': 'boundary monitoring with a relational oracle (recommendations vs ratings of the same report) over generated peers and version-boundary banners',
}
PRODUCTS = {'OpenSSH': ('', 'OpenSSH_%s'), 'Dropbear SSH': ('d', 'dropbear_%s'), 'libssh': ('l1', 'libssh_%s')}


def vt(v):
    try:
        return tuple(int(x) for x in v.split('.'))
    except ValueError:
        return None


def version_le(a, b):
    """a <= b numerically; None when don't care (prefix) or not comparable."""
    ta, tb = vt(a), vt(b)
    if ta is None or tb is None:
        return None
    n = min(len(ta), len(tb))
    if ta[:n] == tb[:n] and len(ta) != len(tb):
        return None
    return ta <= tb


def avail_le(v, c):
    """Is an algorithm that first appeared in release v available in the identified server?  A Dropbear pre-release (2020.79test1) is older than the release of the same number."""
    if c.get('pre') and vt(v) is not None and vt(v) == vt(c['version']):
        return False
    return version_le(v, c['version'])


def first_appeared(entry, prefix):
    """List of server versions of this product in the entry's first version field; [] if the entry has versions but none for the product; None if no version info."""
    v0 = entry[0][0] if entry[0] else None
    if not v0:
        return None
    out = []
    for v in v0.split(','):
        if v.endswith('C'):
            continue
        if prefix == '':
            if not v.startswith('d') and not v.startswith('l1'):
                out.append(v)
        elif v.startswith(prefix):
            out.append(v[len(prefix):])
    return out


def all_versions():
    from ssh_audit.ssh2_kexdb import SSH2_KexDB
    res = {p: set() for p in PRODUCTS}
    for cat in SSH2_KexDB.MASTER_DB.values():
        for e in cat.values():
            for prod, (prefix, _f) in PRODUCTS.items():
                for v in first_appeared(e, prefix) or []:
                    res[prod].add(v)
    return {p: sorted(v, key=vt) for p, v in res.items()}


def neighbours(v):
    t = vt(v)
    lo = list(t)
    hi = list(t)
    hi[-1] += 1
    if lo[-1] > 0:
        lo[-1] -= 1
    else:
        lo = [max(t[0] - 1, 0), 99] + list(t[2:])
    return ['.'.join(map(str, lo)), v, '.'.join(map(str, hi))]


def cases(tier, seed):
    rng = random.Random(seed * 47 + 13)
    vers = all_versions()
    banners = []
    for prod, (prefix, fmt) in PRODUCTS.items():
        for v in vers[prod]:
            for w in neighbours(v):
                banners.append((prod, w, fmt % w))
        for w in ('10.0', '12.3', '0.1'):
            banners.append((prod, w, fmt % w))
    others = [('TinySSH', 'noversion', 'tinyssh_noversion'), ('PuTTY', '0.80', 'PuTTY_Release_0.80'), (None, None, 'FooSSH_1.0'), (None, None, 'Cisco-1.25'), (None, None, None), ('TinySSH', '20240101', 'tinyssh_20240101')]
    cs = []
    n = 220 if tier == 'quick' else 4000
    profiles = ['db', 'asym', 'sizes', 'terrapin', 'gss', 'unknown', 'big', 'weak', 'db', 'asym-weak', 'lone-change', 'empty-category', 'none-both']
    for i in range(4 if tier == 'quick' else 40):
        cs.append({'kind': 'multi', 'seed': rng.randrange(1 << 30), 'threads': [1, 2][i % 2], 'render': 'json'})
    # the same product in different versions in one run, in both orders of completion: what is available to one target is decided by that target's version
    for order in (['openssh-new', 'openssh-old', 'dropbear-old', 'clean'], ['openssh-old', 'dropbear-old', 'openssh-new', 'rsa2048']) + (() if tier == 'quick' else (['dropbear-old', 'openssh-old', 'openssh-new'], ['openssh-new', 'clean', 'openssh-old'])):
        cs.append({'kind': 'multi', 'seed': rng.randrange(1 << 30), 'threads': 1, 'render': 'json', 'order': order})
    # OpenSSH servers whose group exchanges are all measured at exactly 2048 bits (the case in which one of them is excused as outside the operator's control)
    for i, w in enumerate(['6.6', '7.4', '8.9', '9.9'] if tier == 'quick' else ['5.3', '6.6', '7.0', '7.4', '8.0', '8.9', '9.3', '9.9', '10.0']):
        for both in (True, False):
            cs.append({'seed': rng.randrange(1 << 30), 'product': 'OpenSSH', 'version': w, 'software': 'OpenSSH_%s' % w, 'profile': 'gex2048-both' if both else 'gex2048-one', 'render': 'json' if (i + both) % 2 else 'text'})
    # Dropbear pre-releases ("testN") numbered exactly like a release in which something first appeared: older than that release
    dv = vers['Dropbear SSH']
    for i, w in enumerate(dv if tier == 'thorough' else [dv[(seed + j * 5) % len(dv)] for j in range(4)] + ['2020.79']):
        for j, prof in enumerate(['weak', 'db'] if tier == 'thorough' else [['weak', 'db'][i % 2]]):
            cs.append({'seed': rng.randrange(1 << 30), 'product': 'Dropbear SSH', 'version': w, 'software': 'dropbear_%stest%d' % (w, 1 + i % 3), 'pre': True, 'profile': prof, 'render': 'json' if (i + j) % 2 else 'text'})
    for i in range(n):
        if i % 6 == 5:
            prod, w, sw = others[(i // 6) % len(others)]
        else:
            prod, w, sw = banners[(i * 7 + seed) % len(banners)] if tier == 'quick' else banners[i % len(banners)]
        cs.append({'seed': rng.randrange(1 << 30), 'product': prod, 'version': w, 'software': sw, 'profile': profiles[(i + i // len(profiles)) % len(profiles)], 'render': 'json' if i % 3 == 0 else 'text'})   # shifted per cycle so that every profile meets every banner class
    return cs


def _v(key, what, **d):
    return {'key': key, 'what': what, 'detail': d}


def build(c):
    rng = random.Random(c['seed'])
    names = audit.db_names()
    prof = c['profile']
    hk, gex = {}, None
    if prof == 'big':
        k = gen.random_kex(rng, names, {'db': 1}, (15, 40))
    elif prof == 'gss':
        k = gen.random_kex(rng, names, {'db': 4, 'gss': 3}, (2, 8))
    elif prof == 'unknown':
        k = gen.random_kex(rng, names, {'db': 5, 'unknown': 2}, (2, 8))
        k['kex'] = list(k['kex']) + ['gss-group14-sha1', 'gss-gex-sha1@example.com']   # look-alikes of failing GSS families (a bare stem, a stem with a domain): unknown to the database, so nothing is recommended about them
    elif prof == 'weak':
        k = audit.sym_kex(['diffie-hellman-group1-sha1', 'diffie-hellman-group14-sha1', 'diffie-hellman-group-exchange-sha1'], ['ssh-dss', 'ssh-rsa'], ['3des-cbc', 'arcfour', 'aes128-cbc'], ['hmac-md5', 'hmac-sha1-96'])
    elif prof == 'terrapin':
        k = gen.random_kex(rng, names, {'db': 1}, (2, 6))
        k['enc_sc'] = k['enc_cs'] = k['enc_sc'] + rng.sample(['chacha20-poly1305@openssh.com', 'aes128-cbc', 'aes256-cbc'], 2)
        k['mac_sc'] = k['mac_cs'] = k['mac_sc'] + ['hmac-sha2-256-etm@openssh.com']
        if rng.random() < .5:
            k['kex'] = k['kex'] + ['kex-strict-s-v00@openssh.com']
    else:
        k = gen.random_kex(rng, names, {'db': 1}, (2, 9))
    if prof in ('asym', 'asym-weak'):
        # different lists per direction: the report (and therefore the recommendations) is about the server-to-client lists
        k['enc_cs'] = gen.pick_names(rng, 'enc', names, rng.randint(1, 5), {'db': 1})
        k['mac_cs'] = gen.pick_names(rng, 'mac', names, rng.randint(1, 5), {'db': 1})
        if prof == 'asym-weak':
            k['mac_sc'] = ['hmac-sha2-256-etm@openssh.com', 'umac-128-etm@openssh.com', 'hmac-md5', 'hmac-sha1']
            k['mac_cs'] = ['hmac-sha2-256-etm@openssh.com', 'hmac-sha2-512-etm@openssh.com']
            k['enc_sc'] = ['aes256-gcm@openssh.com', '3des-cbc', 'aes128-ctr']
            k['enc_cs'] = ['aes256-gcm@openssh.com', 'aes256-ctr']
    if prof == 'sizes':
        k['key'] = rng.sample(['ssh-rsa', 'rsa-sha2-256', 'rsa-sha2-512', 'ssh-ed25519'], 3)
        k['kex'] = ['curve25519-sha256'] + rng.sample(['diffie-hellman-group-exchange-sha256', 'diffie-hellman-group-exchange-sha1'], rng.randint(1, 2)) + k['kex'][:2]
        bits = rng.choice([1024, 2048, 3072, 4096])
        hk = gen.hostkeys_for(k['key'], {t: {'type': 'rsa', 'bits': bits} for t in ('ssh-rsa', 'rsa-sha2-256', 'rsa-sha2-512')})
        gex = {'sizes': [rng.choice([1024, 2048, 3072, 4096])], 'style': rng.choice(['strict', 'openssh'])}
    if prof.startswith('gex2048'):
        k['kex'] = ['curve25519-sha256', 'diffie-hellman-group-exchange-sha256'] + (['diffie-hellman-group-exchange-sha1'] if prof.endswith('both') else []) + [x for x in k['kex'] if 'group-exchange' not in x and x != 'curve25519-sha256'][:2]
        gex = {'sizes': rng.choice([[2048], [2048, 8192]]), 'style': rng.choice(['strict', 'openssh'])}
    if prof == 'none-both':
        # the one database name that carries a failure in two categories, advertised in both
        k = audit.sym_kex(['curve25519-sha256', 'diffie-hellman-group14-sha1'], ['ssh-ed25519'], ['aes128-ctr', 'none'] + rng.sample(['3des-cbc', 'aes256-ctr'], 1), ['hmac-sha2-256', 'none'] + rng.sample(['hmac-sha1', 'hmac-sha2-512'], 1))
    if prof == 'empty-category':
        # one name-list is empty (protocol-valid), the categories after it carry weak algorithms
        k = audit.sym_kex(['curve25519-sha256', 'diffie-hellman-group14-sha1'], ['ssh-rsa', 'ssh-ed25519'], ['aes128-ctr', '3des-cbc', 'aes128-cbc'], ['hmac-sha2-256', 'hmac-sha1', 'hmac-md5'])
        emptied = rng.choice(['key', 'kex', 'enc_sc'])
        k[emptied] = []
        if emptied == 'enc_sc':
            k['enc_cs'] = []
    if prof == 'lone-change':
        # a host-key list with nothing to add and nothing to remove, whose RSA key is 2048 bits: the only recommendation of the category is a change
        k['key'] = ['ssh-ed25519', 'rsa-sha2-256'] + ([] if c['product'] == 'Dropbear SSH' else ['rsa-sha2-512'])
        k['kex'] = ['curve25519-sha256'] + [x for x in k['kex'] if x != 'curve25519-sha256'][:2]
        hk = gen.hostkeys_for(k['key'], {t: {'type': 'rsa', 'bits': 2048} for t in ('rsa-sha2-256', 'rsa-sha2-512')})
    banner = 'SSH-2.0' + ('-' + c['software'] if c['software'] else '')
    return {'banner': banner, 'kex': k, 'hostkeys': hk, 'gex': gex}


def run_multi(c):
    """Several peers whose run-time ratings differ (Terrapin context, key and modulus sizes) in one -T run: every entry's recommendations must follow that entry's own ratings."""
    from harness import multi
    names = ['clean', 'terrapin', 'rsa2048', 'rsa1024', 'gex2048', 'gex1024', 'cert-small-ca']
    rng = random.Random(c['seed'])
    order = c.get('order') or rng.sample(names, 4)
    targets = [multi.Target(n, multi.healthy(n)) for n in order]
    try:
        res = multi.run_multi(targets, c['threads'], 'json', timeout=240)
    finally:
        for t in targets:
            t.stop()
    viol, counters = [], {'multi_target_entries': 0}
    for t in targets:
        docs = (res.get('docs') or {}).get(t.spec) or []
        if not docs:
            viol.append(_v('C13/multi-target-entry-missing', 'no JSON entry for a target', target=t.name, err=res.get('json_error')))
            continue
        counters['multi_target_entries'] += 1
        if c.get('order'):
            counters['multi_target_version_mix_entries'] = counters.get('multi_target_version_mix_entries', 0) + 1
        sw = t.script['banner'].split('-', 2)[2]
        prod = 'Dropbear SSH' if sw.startswith('dropbear') else 'OpenSSH'
        cc = {'product': prod, 'version': sw.split('_')[1].replace('p1', ''), 'software': sw, 'render': 'json', 'seed': c['seed'], 'profile': 'multi:' + t.name}
        sub = check_doc(cc, t.script, docs[0], None)
        for v in sub['violations']:
            v['key'] = v['key'] + ':multi-target'
            v['detail']['order'] = order
            viol.append(v)
        for k_, val in sub['counters'].items():
            counters[k_] = counters.get(k_, 0) + val
    seen, uniq = set(), []
    for v in viol:
        if v['key'] not in seen:
            seen.add(v['key'])
            uniq.append(v)
    return {'violations': uniq, 'counters': counters, 'nontrivial': counters['multi_target_entries'] > 0, 'sample': {'case': c, 'order': order, 'observed': counters}, 'sample_kind': 'multi'}


def run_case(c):
    if c.get('kind') == 'multi':
        return run_multi(c)
    script = build(c)
    r, p = audit.audit_server(script, ['-j'] if c['render'] == 'json' else [])
    if r.status not in (0, 2, 3):
        return {'violations': [_v('C13/audit-failed:status%s' % r.status, 'audit did not complete', out=r.out[-400:])], 'counters': {}}
    return check_doc(c, script, json.loads(r.out) if c['render'] == 'json' else None, r.out if c['render'] != 'json' else None)


def check_doc(c, script, doc, text):
    from ssh_audit.ssh2_kexdb import SSH2_KexDB
    db = SSH2_KexDB.MASTER_DB
    viol, counters = [], {}
    counters['audits_completed'] = 1
    k = script['kex']
    adv = {'kex': k['kex'], 'key': k['key'], 'enc': k['enc_sc'], 'mac': k['mac_sc']}

    class _S:
        status = 0
    r = _S()
    if doc is not None:
        counters['json_runs'] = 1
        find = report.json_findings(doc)
        recs = [(sgn, n, cat, {'critical': 'fail', 'warning': 'warn', 'informational': 'good'}[lvl]) for (sgn, n, cat, lvl, _x) in report.json_recs(doc)]
    else:
        rep = report.parse_text(text)
        find = rep.findings()
        recs = [(sgn, n, cat, col) for (sgn, n, cat, _a, _b, col) in rep.recs]
    rated = {}
    for (cat, n, lvl, txt) in find:
        if cat in adv and lvl in ('fail', 'warn'):
            rated.setdefault((cat, n), set()).add(lvl)
    notes_of = {}
    for (cat, n, lvl, txt) in find:
        notes_of.setdefault((cat, n), []).append(txt)
    product = c['product']
    recognised = product in ('OpenSSH', 'Dropbear SSH', 'libssh', 'TinySSH')
    if not recognised:
        counters['unrecognised_software'] = 1
    prefix = PRODUCTS[product][0] if product in PRODUCTS else None
    minus = {(cat, n) for (sgn, n, cat, _l) in recs if sgn in ('-', '!')}
    plus = {(cat, n) for (sgn, n, cat, _l) in recs if sgn == '+'}
    counters['recs_checked'] = len(recs)
    for cat in adv:
        signs = {sgn for (sgn, n, cat_, _l) in recs if cat_ == cat}
        if signs == {'!'}:
            counters['categories_with_only_changes'] = counters.get('categories_with_only_changes', 0) + 1
    # 1. removals / changes are advertised and rated in this report
    for (sgn, n, cat, lvl) in recs:
        if sgn in ('-', '!'):
            if n not in adv.get(cat, []):
                viol.append(_v('C13/removal-of-unadvertised', 'an algorithm recommended for removal/change is not advertised', name=n, cat=cat))
            elif (cat, n) not in rated:
                viol.append(_v('C13/removal-of-unrated', 'an algorithm recommended for removal/change carries no failure or warning in the report', name=n, cat=cat))
            else:
                want = 'fail' if 'fail' in rated[(cat, n)] else 'warn'
                if lvl != want:
                    viol.append(_v('C13/level-wrong:%s-shown-as-%s' % (want, lvl), 'recommendation level is not critical exactly when the algorithm has a failure', name=n, cat=cat))
    # 2. rated names known in the identified version are recommended
    if c['software'] is not None and product is not None:
        for (cat, n), lv in rated.items():
            counters['rated_names_checked'] = counters.get('rated_names_checked', 0) + 1
            base = n
            is_gss = cat == 'kex' and n.startswith('gss-') and (n[:n.rindex('-')] + '-*') in db['kex']
            if is_gss:
                base = n[:n.rindex('-')] + '-*'
            e = db[cat].get(base)
            if e is None:
                continue  # unknown to the database
            fa = first_appeared(e, prefix) if prefix is not None else ([] if (e[0] and e[0][0]) else None)
            if fa is None:
                known = True
            elif not fa:
                known = False
            else:
                les = [avail_le(v, c) for v in fa]
                known = True if any(x is True for x in les) else None if any(x is None for x in les) else False
            if known is True and (cat, n) not in minus:
                if any('regardless of server configuration' in t for t in notes_of.get((cat, n), [])):
                    continue  # the report says it is outside the operator's control
                viol.append(_v('C13/rated-but-not-recommended:' + ('gss-instance' if is_gss else 'db-name'), 'an advertised algorithm with a failure/warning that the database knows in the identified version is not recommended for removal or change',
                               name=n, cat=cat, levels=sorted(lv), product=product, version=c['version']))
            if known is False and (cat, n) in minus:
                pass  # not demanded either way
    # 3. additions
    for (cat, n) in plus:
        counters['additions_checked'] = counters.get('additions_checked', 0) + 1
        e = db.get(cat, {}).get(n)
        if not recognised:
            viol.append(_v('C13/addition-for-unrecognised-software', 'an addition is recommended although the software is not recognised', name=n, software=c['software']))
            continue
        if n in adv.get(cat, []):
            viol.append(_v('C13/addition-of-advertised', 'an advertised algorithm is recommended for addition', name=n))
        if e is None:
            viol.append(_v('C13/addition-unknown-to-db', 'an algorithm unknown to the database is recommended for addition', name=n))
            continue
        if (len(e) > 1 and e[1]) or (len(e) > 2 and e[2]):
            viol.append(_v('C13/addition-of-rated', 'an algorithm with a failure or warning is recommended for addition', name=n, cat=cat))
        if (cat == 'key' and ('-cert-' in n or n.startswith('sk-'))) or (cat == 'kex' and (n.startswith('ext-info-') or n.startswith('kex-strict-'))):
            viol.append(_v('C13/addition-of-cert-sk-pseudo', 'a certificate, security-key or pseudo algorithm is recommended for addition', name=n))
        fa = first_appeared(e, prefix) if prefix is not None else None
        if not fa:
            viol.append(_v('C13/addition-without-version', 'an algorithm the database does not date for this product is recommended for addition', name=n, product=product))
        else:
            les = [avail_le(v, c) for v in fa]
            if all(x is False for x in les):
                viol.append(_v('C13/addition-not-yet-available', 'an algorithm that first appeared after the identified version is recommended for addition', name=n, first_appeared=fa, version=c['version'], product=product))
    if plus & minus:
        viol.append(_v('C13/both-ways', 'an algorithm is recommended both for addition and for removal', names=sorted(plus & minus)))
    seen, uniq = set(), []
    for v in viol:
        if v['key'] not in seen:
            seen.add(v['key'])
            uniq.append(v)
    return {'violations': uniq, 'counters': counters, 'nontrivial': len(recs) + len(rated) > 0,
            'sample': {'case': c, 'recs': len(recs), 'rated': len(rated)}, 'sample_kind': str(c['product']) + c['render']}
