"""C07 - each target's result is independent of the other targets in the run."""
import itertools
import json
import os
import random

from harness import audit, multi, report, runner
from props import c06

ID = 'C07'
LEVEL = 'exploration'
SHARDS = 16
THREADS = 2
RULE = ('one case = one real `-T file --threads k` run over 2-3 scripted servers that all advertise the same base lists but differ in exactly the attribute through which a scan writes into shared rating state '
        '(strict-kex marker => Terrapin marks; RSA host key 1024/2048/4096; certificate CA size; group-exchange modulus 1024/2048/4096; OpenSSH 2048 fallback note and its recommendation suppression; unknown names; SSH-1), '
        'compared block by block (text) / element by element (JSON) / verdict by verdict (policy audit) with fresh single-target runs of the same servers.  Quick: all ordered pairs with --threads 1 (forces succession on one worker thread) '
        'plus gated 3-target runs with --threads 2 in both gate orders; thorough: all ordered triples, threads 1/2/3/32, every gate permutation, two hash seeds.  The in-process monitor records (thread, target, table pristine at entry) '
        'so the evidence lists the distinct "previous target on this thread -> this target" contexts actually produced.  Non-trivial: at least one target ran on a thread that had already served another target, or two targets ran concurrently; '
        'distinct = distinct (target list, threads, gate order, format)')
REQUIRED = {'failpoints_fired': 6, 'single_entry_files': 6, 'runs_with_extra_options': 8, 'targets_listed_twice': 6, 'default_port_entries': 6, 'multi_runs': 40, 'blocks_compared': 80, 'thread_reuse_contexts': 30, 'json_runs': 8, 'policy_runs': 4, 'gated_runs': 4, 'master_digest_checks': 40}
ASSUMPTIONS = ['a per-target block is compared after removing the "(gen) target:" line and surrounding blank lines; a JSON element after removing "target"',
               'the table-pristine observation is diagnostic only: the verdict is decided on output equality']
MANIFEST = {
    'text': 'Exploration over target-succession schedules: which targets share a worker thread and in which order is produced deliberately (--threads 1 file order; gated peers for --threads 2) and observed by an in-process monitor; every per-target result is compared with a fresh single-target run.',
    'note': 'Relational oracle (multi-target vs single-target execution of the same scripted server); OS-level interleavings inside CPython are not enumerated, only thread assignment and ordering, which is the dimension the code\'s per-thread state makes relevant.',
    'technique': 'schedule-steered runtime monitoring (gated peers + thread/ table monitor) with a relational oracle against single-target executions',
}
_single_cache = {}


def cases(tier, seed):
    rng = random.Random(seed * 59 + 7)
    A = [a for a in multi.HEALTHY]
    cs = []
    pairs = list(itertools.permutations(A, 2)) + [(a, a) for a in A]
    for i, (a, b) in enumerate(pairs):
        if tier == 'quick' and i % 2 != seed % 2 and not ({a, b} & {'terrapin', 'gex2048-openssh', 'ssh1'}):
            continue
        cs.append({'kind': 'seq', 'targets': [a, b], 'threads': 1, 'fmt': 'json' if i % 4 == 0 else 'text'})
    trip = list(itertools.permutations([a for a in A if a != 'ssh1'], 3))
    for i, t in enumerate(trip if tier == 'thorough' else rng.sample(trip, 10)):
        # with two worker threads the third target only starts once one of the first two has finished, so a feasible gate order opens target 0 or 1 first
        for order in ([o for o in itertools.permutations(range(3)) if o[0] in (0, 1)] if tier == 'thorough' and i % 10 == 0 else [(0, 2, 1), (1, 2, 0)]):
            cs.append({'kind': 'gated', 'targets': list(t), 'threads': 2, 'fmt': 'text' if i % 3 else 'json', 'gate_order': list(order)})
    if tier == 'thorough':
        for i, t in enumerate(trip):
            cs.append({'kind': 'seq', 'targets': list(t), 'threads': 1, 'fmt': 'json' if i % 5 == 0 else 'text', 'hashseed': str(i % 2)})
        for i, (a, b) in enumerate(pairs):
            for th in (2, 3, 32):
                cs.append({'kind': 'seq', 'targets': [a, b, a], 'threads': th, 'fmt': 'text' if i % 2 else 'json'})
    # one entry relies on the default port given with -p while the others spell their own: which entry comes first must not matter
    pm = [('clean', 'rsa1024', 'terrapin'), ('gex1024', 'clean', 'openssh-old'), ('terrapin', 'clean', 'clean')]
    for i, names in enumerate(pm if tier == 'quick' else list(itertools.permutations(['clean', 'rsa1024', 'terrapin', 'gex2048-openssh'], 3))):
        for bare in range(3):
            cs.append({'kind': 'portmix', 'targets': list(names), 'bare': bare, 'threads': [1, 2][(i + bare) % 2], 'fmt': 'json' if (i + bare) % 3 == 0 else 'text'})
    # the same schedules under options that change which code runs around a scan (-2: SSH-2 only; -4; batch; level filter)
    for i, opts in enumerate([['-2'], ['-4'], ['-b'], ['-l', 'warn'], ['-2', '-b']]):
        for (a, b) in ([('terrapin', 'clean'), ('rsa1024', 'clean')] if tier == 'quick' else list(itertools.permutations(['terrapin', 'clean', 'rsa1024', 'gex1024', 'gex2048-openssh'], 2))):
            cs.append({'kind': 'seq', 'targets': [a, b], 'threads': 1, 'fmt': 'json' if i % 2 else 'text', 'opts': opts})
    # a target that ends without a single finding ("good"), then a target sharing its algorithms: nothing the first scan did to the tables may show on the second
    for fmt in ('json', 'text'):
        for th in (1, 2):
            cs.append({'kind': 'seq', 'targets': ['good-only', 'good-only', 'warn-only'], 'threads': th, 'fmt': fmt})
    # two targets whose identification lines look the same once shown (one of them has a replaced character and is flagged): neither verdict may leak to the other
    for i, tg in enumerate([['twin-plain', 'twin-nonascii'], ['twin-nonascii', 'twin-plain'], ['twin-nonascii', 'twin-plain', 'twin-nonascii']]):
        for th in ((1, 2) if tier == 'thorough' else ([1, 2][i % 2],)):
            cs.append({'kind': 'seq', 'targets': tg, 'threads': th, 'fmt': ['text', 'json'][i % 2]})
    # the same server listed twice (same line again, around another target)
    for i, (a, b) in enumerate([('clean', 'rsa1024'), ('terrapin', 'clean'), ('gex1024', 'openssh-new')] if tier == 'quick' else list(itertools.permutations(['clean', 'rsa1024', 'terrapin', 'gex1024'], 2))):
        for th in (1, 2):
            cs.append({'kind': 'dup', 'targets': [a, b], 'threads': th, 'fmt': 'json' if (i + th) % 2 else 'text', 'layout': ['aba', 'aab', 'baa'][(i + th) % 3]})
    # the smallest list there is: a targets file with a single entry still is a multi-target run of that one target
    for i, a in enumerate(['clean', 'rsa1024', 'terrapin', 'ssh1'] if tier == 'quick' else A):
        for th in (1, 2):
            cs.append({'kind': 'seq', 'targets': [a], 'threads': th, 'fmt': 'json' if (i + th) % 2 else 'text', 'alone': True})
    # a scan that ends in an exception after it has run (injected by the monitor where the scan function returns): the worker's error paths leave nothing behind for the next target either
    for i, (a, b) in enumerate([('rsa1024', 'clean'), ('gex1024', 'openssh-new'), ('terrapin', 'clean'), ('cert-small-ca', 'clean')] if tier == 'quick' else [(a, b) for a in ('rsa1024', 'gex1024', 'terrapin', 'cert-small-ca', 'warn-only') for b in ('clean', 'openssh-new', 'good-only')]):
        for exc in ('RuntimeError', 'SystemExit'):
            cs.append({'kind': 'failpoint', 'targets': [a, b], 'threads': 1, 'fmt': 'text', 'exc': exc})
    pol_pairs = [('clean', 'rsa1024'), ('rsa1024', 'clean'), ('gex1024', 'clean'), ('clean', 'clean'), ('terrapin', 'cert-small-ca'), ('cert-small-ca', 'clean')]
    for i, (a, b) in enumerate(pol_pairs if tier == 'quick' else list(itertools.permutations([x for x in A if x not in ('ssh1', 'no-probes')], 2))):
        cs.append({'kind': 'policy', 'targets': [a, b], 'threads': 1 if i % 3 else 2, 'fmt': 'json' if i % 2 else 'text'})
    return cs


def _v(key, what, **d):
    return {'key': key, 'what': what, 'detail': d}


def single(name, fmt, extra=()):
    key = (name, fmt, tuple(extra))
    if key in _single_cache:
        return _single_cache[key]
    r, p = audit.audit_server(multi.healthy(name), (['-j'] if fmt == 'json' else ['-n']) + list(extra))
    if fmt == 'json':
        try:
            doc = json.loads(r.out)
            doc.pop('target', None)
            doc.pop('host', None)
            doc.pop('port', None)
        except ValueError:
            doc = {'unparsable': r.out[:200]}
        val = (r.status, doc)
    else:
        val = (r.status, multi.normalize_text(r.out))
    _single_cache[key] = val
    return val


def clean_policy_text():
    s = multi.healthy('clean')
    k = s['kex']
    pol = c06.base_pol(0)
    pol['kex'], pol['key'], pol['enc'], pol['mac'] = k['kex'], k['key'], k['enc_sc'], k['mac_sc']
    pol['sizes'] = {t: {'hostkey_size': 4096} for t in ('ssh-rsa', 'rsa-sha2-512', 'rsa-sha2-256')}
    pol['sizes']['ssh-rsa-cert-v01@openssh.com'] = {'hostkey_size': 4096, 'ca_key_type': 'ssh-rsa', 'ca_key_size': 4096}
    pol['dh'] = {'diffie-hellman-group-exchange-sha256': 4096, 'diffie-hellman-group-exchange-sha1': 4096}
    return c06.policy_text(pol, 'clean-baseline')


def run_case(c):
    names = c['targets']
    gated = c['kind'] == 'gated'
    targets = [multi.Target(n, multi.healthy(n), gated=gated) for n in names]
    viol, counters = [], {'multi_runs': 1}
    extra = list(c.get('opts', []))
    if extra:
        counters['runs_with_extra_options'] = 1
    d = None
    try:
        if c['kind'] == 'policy':
            d = runner.scratch_dir('c07p')
            pf = os.path.join(d, 'pol.txt')
            with open(pf, 'w') as f:
                f.write(clean_policy_text())
            extra = ['-P', pf]
            counters['policy_runs'] = 1
        file_lines = None
        if c['kind'] == 'portmix':
            bare = targets[c['bare']]
            file_lines = [('127.0.0.1' if t is bare else t.spec) for t in targets]
            extra = ['-p', str(bare.peer.port)]
            counters['default_port_entries'] = 1
        if c['kind'] == 'dup':
            file_lines = [targets['ab'.index(ch)].spec for ch in c['layout']]
            counters['targets_listed_twice'] = 1
        listed = file_lines if file_lines is not None and c['kind'] == 'dup' else [t.spec for t in targets]
        spec = {'failpoint': {'port': targets[0].peer.port, 'exc': c['exc']}} if c['kind'] == 'failpoint' else None
        res = multi.run_multi(targets, c['threads'], c['fmt'], extra=extra, gate_order=c.get('gate_order'), monitors=['calls', 'tables'], tmo=30 if gated else None, hashseed=c.get('hashseed', '0'), timeout=180, file_lines=file_lines, spec=spec)
        r = res['run']
        if r.timed_out:
            return {'verdict': 'inconclusive', 'why': 'watchdog'}
        if gated:
            counters['gated_runs'] = 1
        if c['fmt'] == 'json':
            counters['json_runs'] = 1
        # ----------------------------------------------------------- what the schedule monitor saw
        enters = [e for e in (r.monitor or []) if e['k'] == 'worker-enter']
        port_to_name = {t.peer.port: t.name for t in targets}
        by_thread = {}
        contexts = []
        for e in enters:
            nm = port_to_name.get(e.get('port'), '?')
            prev = by_thread.get(e['th'])
            if prev is not None:
                contexts.append('%s->%s' % (prev, nm))
            by_thread[e['th']] = nm
        counters['thread_reuse_contexts'] = len(contexts)
        entry = [e for e in (r.monitor or []) if e['k'] == 'table-at-entry']
        dirty_entries = [e for e in entry if not e.get('pristine')]
        md = [e for e in (r.monitor or []) if e['k'] == 'master-digest' and e.get('when') == 'exit']
        if md:
            counters['master_digest_checks'] = 1
            if not md[0].get('same'):
                viol.append(_v('C07/master-table-modified', 'the master rating tables were modified by a scan'))
        if c['kind'] == 'failpoint':
            fired = [e for e in (r.monitor or []) if e['k'] == 'failpoint']
            if not fired:
                return {'verdict': 'inconclusive', 'why': 'the failpoint was not reached'}
            counters['failpoints_fired'] = len(fired)
            later = [e for e in entry if e.get('port') == targets[1].peer.port]
            if any(not e.get('pristine') for e in later):
                viol.append(_v('C07/tables-dirty-at-entry:after-failed-scan:' + c['exc'], 'after a scan that ended in an exception the next target of the same worker starts from annotated tables', dirty=[e.get('dirty') for e in later][:2]))
        # ----------------------------------------------------------- per-target comparison
        for t in (targets[1:] if c['kind'] == 'failpoint' else targets):
            if c['kind'] == 'policy' or c.get('opts'):
                want_status, want = single(t.name, c['fmt'], tuple(extra))
            else:
                want_status, want = single(t.name, c['fmt'])
            if c['fmt'] == 'json':
                if res['docs'] is None:
                    viol.append(_v('C07/json-unparsable', 'stdout of a multi-target -j run is not a JSON array', err=res.get('json_error'), out=r.out[:300]))
                    break
                key = t.spec if c['kind'] != 'policy' else t.spec
                docs = res['docs'].get(key) or res['docs'].get('%s:%s' % ('127.0.0.1', t.peer.port)) or []
                n_same = listed.count(t.spec)
                if len(docs) != n_same:
                    viol.append(_v('C07/element-count', 'number of JSON elements for a target differs from the number of times it was listed', target=t.name, got=len(docs), want=n_same))
                    continue
                for doc in docs:
                    dd = dict(doc)
                    dd.pop('target', None)
                    dd.pop('host', None)
                    dd.pop('port', None)
                    counters['blocks_compared'] = counters.get('blocks_compared', 0) + 1
                    if dd != want:
                        diffk = sorted(k for k in set(dd) | set(want) if dd.get(k) != want.get(k))
                        viol.append(_v('C07/result-depends-on-other-targets:json:%s' % (diffk[0] if diffk else '?'), 'the JSON entry of a target differs from its single-target result', target=t.name, others=names, keys=diffk,
                                       contexts=contexts, dirty_at_entry=[e.get('dirty') for e in dirty_entries][:2], got={k: dd.get(k) for k in diffk[:2]}, want={k: want.get(k) for k in diffk[:2]}))
            else:
                blocks = res['blocks'].get(t.spec) or []
                if not blocks:
                    viol.append(_v('C07/block-missing', 'no result block for a listed target', target=t.name, out=r.out[-300:]))
                    continue
                if len(blocks) != listed.count(t.spec):
                    viol.append(_v('C07/block-count', 'number of result blocks for a target differs from the number of times it was listed', target=t.name, got=len(blocks), want=listed.count(t.spec)))
                for b in blocks:
                    counters['blocks_compared'] = counters.get('blocks_compared', 0) + 1
                    got = multi.normalize_text(b)
                    if c['kind'] == 'policy':
                        g, w = report.parse_policy_text(got), report.parse_policy_text(want)
                        same = (g['result'], g['errors'], g['policy']) == (w['result'], w['errors'], w['policy'])
                        got_cmp, want_cmp = '\n'.join(l for l in got.split('\n') if not l.startswith('Host:')), '\n'.join(l for l in want.split('\n') if not l.startswith('Host:'))
                        same = same and got_cmp == want_cmp
                    else:
                        same = got == want
                    if not same:
                        import difflib
                        diff = [l for l in difflib.unified_diff(want.split('\n'), got.split('\n'), lineterm='', n=0) if not l.startswith(('---', '+++', '@@'))]
                        what = 'policy' if c['kind'] == 'policy' else ('rec' if all('(rec)' in l for l in diff) else 'notes')
                        viol.append(_v('C07/result-depends-on-other-targets:text:%s' % what, 'the report block of a target differs from its single-target report', target=t.name, others=names, threads=c['threads'],
                                       contexts=contexts, dirty_at_entry=[e.get('dirty') for e in dirty_entries][:2], diff=diff[:8]))
    finally:
        for t in targets:
            t.stop()
        if d:
            runner.cleanup(d)
    seen, uniq = set(), []
    for v in viol:
        if v['key'] not in seen:
            seen.add(v['key'])
            uniq.append(v)
    concurrent = c['threads'] > 1 or c.get('alone')
    if c.get('alone'):
        counters['single_entry_files'] = 1
    return {'violations': uniq, 'counters': counters, 'nontrivial': (counters.get('thread_reuse_contexts', 0) > 0 or concurrent) and counters.get('blocks_compared', 0) > 0,
            'contexts': contexts, 'sample': {'case': c, 'thread_contexts': contexts, 'blocks_compared': counters.get('blocks_compared', 0), 'tables_dirty_at_entry': len(dirty_entries)}, 'sample_kind': c['kind'] + c['fmt']}


def extra_evidence(results):
    ctx = set()
    for r in results:
        for x in r.get('contexts') or []:
            ctx.add(x)
    return {'distinct_thread_succession_contexts': len(ctx), 'thread_succession_contexts_sample': sorted(ctx)[:40]}
