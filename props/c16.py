"""C16 - identification strings are recognised, decomposed and sanitised correctly."""
import json
import random
import re

from harness import audit, report, wire

ID = 'C16'
LEVEL = 'exploration'
SHARDS = 16
RULE = ('lines generated from the grammar SSH-<d>.<d+>-<token>[ <comments>] (token over printable ASCII without space, comments with 1-3 space runs, '
        'optional injected bytes < 32, 127, >= 128 in token/comments, product strings of the known families at random versions); in-process batches call the real '
        'Banner.parse / Software.parse, end-to-end cases deliver 0..6 header lines then the banner from a scripted peer (CRLF or LF; in one write, cut in two inside the banner or a header line, or in 1-7 byte segments) and read the text and JSON report; '
        'a case is non-trivial when at least one generated line was parsed and every part (protocol, software, comments, flag, round trip) was compared; '
        'distinct = distinct batch / peer specifications')
REQUIRED = {'e2e_text_only_on_later_connections': 3, 'e2e_via_targets_file': 3, 'e2e_client_audits': 3, 'lines_parsed': 5000, 'injected_lines': 500, 'product_lines': 300, 'e2e_runs': 20, 'e2e_injected_at_end_of_line': 8, 'e2e_protocol_1_99': 6, 'e2e_blank_first_line': 6, 'e2e_long_header_lines': 8, 'e2e_with_header': 5, 'e2e_cut_inside_a_line': 10, 'e2e_header_then_cut_banner': 4}
ASSUMPTIONS = ['comments are compared after collapsing whitespace runs to one space (the normalisation the tool documents)',
               'each character outside 32..126 is expected to be shown as one replacement character; a multi-byte UTF-8 sequence or an undecodable byte counts as one character',
               'end-to-end delivery is one TCP segment smaller than the tool\'s 2048-byte read (segmentation is C09\'s subject)']
MANIFEST = {
    'text': 'Exploration: 50k (quick) / 1M (thorough) grammar-generated identification lines through the real Banner.parse/Software.parse with a generator-side oracle (the generator keeps the parts it built the line from), plus end-to-end audits with header lines; holds on the lines generated.',
    'note': 'The oracle is the generator itself (parts are known by construction); trusts the report parser for the end-to-end part.',
    'technique': 'runtime monitoring with a constructive (generator-knows-the-answer) oracle and parse/render/parse round-trip checks; boundary observation of real audits',
}
TOKEN_CHARS = ''.join(chr(c) for c in range(33, 127))
COMMENT_CHARS = TOKEN_CHARS
INJECT = ['\x00', '\x01', '\x07', '\x08', '\x1b', '\x1f', '\x7f', '\x80', '\x9b', '\xa0', '\xe9', '\xff', '€', '�', '\U0001f600']
# characters that are whitespace for str.strip() but not for bytes.strip(): at the end of a line they are the first thing a careless trim removes
INJECT_END = ['\x1c', '\x1d', '\x1e', '\x1f', '\x85', '\xa0', '\u2028', '\u2003', '\u3000', '\x01', '\xfc']
PRODUCTS = [
    ('OpenSSH_%s', 'OpenSSH', ['', 'p1', 'p2']), ('dropbear_%s', 'Dropbear SSH', ['', 'test1']), ('libssh-%s', 'libssh', ['']), ('libssh_%s', 'libssh', ['']),
    ('tinyssh_%s', 'TinySSH', None), ('PuTTY_Release_%s', 'PuTTY', None), ('RomSShell_%s', 'RomSShell', ['']), ('mpSSH_%s', 'iLO (Integrated Lights-Out) sshd', ['']), ('Cisco-%s', 'IOS/PIX sshd', ['']),
]


def gen_line(rng, inject=False, product=False):
    major = rng.choice([1, 2, 2, 2])
    minor = rng.choice(['0', '5', '99', '0', str(rng.randint(0, 99))]) if major == 1 else rng.choice(['0', '0', '0', str(rng.randint(0, 20))])
    exp_product = exp_version = None
    if product:
        fmt, exp_product, pats = rng.choice(PRODUCTS)
        exp_version = '%d.%d' % (rng.randint(0, 12), rng.randint(0, 99)) + rng.choice(['', '', '.%d' % rng.randint(0, 20), '.%d.%d' % (rng.randint(0, 20), rng.randint(0, 120))])
        if rng.random() < .2:
            exp_version = '%d.%d' % (rng.randint(2011, 2024), rng.randint(50, 90))
        token = fmt % exp_version + (rng.choice(pats) if pats else '')
    else:
        token = ''.join(rng.choice(TOKEN_CHARS) for _ in range(rng.choice([1, 2, 5, 12, 30, 60])))
    words = []
    if rng.random() < .6:
        words = [''.join(rng.choice(COMMENT_CHARS) for _ in range(rng.randint(1, 12))) for _ in range(rng.randint(1, 4))]
    seps = [' ' * rng.choice([1, 1, 2, 3]) for _ in words]
    shown_token, shown_words = token, list(words)
    injected = False
    if inject == 'end':
        ch = rng.choice(INJECT_END)
        if words:
            words[-1], shown_words[-1] = words[-1] + ch, words[-1] + '?'
        else:
            token, shown_token = token + ch, token + '?'
        injected = True
    elif inject:
        def inj(s):
            i = rng.randrange(len(s) + 1)
            ch = rng.choice(INJECT)
            return s[:i] + ch + s[i:], s[:i] + '?' + s[i:]
        if words and rng.random() < .5:
            j = rng.randrange(len(words))
            words[j], shown_words[j] = inj(words[j])
        else:
            if product:
                # keep the product prefix recognisable: inject after the version
                token, shown_token = token + rng.choice(INJECT), token + '?'
            else:
                token, shown_token = inj(token)
        injected = True
    line = 'SSH-%d.%s-%s' % (major, minor, token)
    for s, w in zip(seps, words):
        line += s + w
    exp = {'protocol': [major, int(minor)], 'software': shown_token, 'comments': ' '.join(shown_words) if words else None, 'valid_ascii': not injected,
           'product': exp_product, 'version': exp_version}
    return line, exp


def cases(tier, seed):
    rng = random.Random(seed * 31 + 16)
    cs = []
    nb = 48 if tier == 'quick' else 480
    per = 1100 if tier == 'quick' else 2100
    for i in range(nb):
        cs.append({'kind': 'parse', 'seed': rng.randrange(1 << 30), 'n': per, 'mode': ['plain', 'inject', 'product', 'product-inject'][i % 4]})
    ne = 64 if tier == 'quick' else 1200
    for i in range(ne):
        cs.append({'kind': 'e2e', 'seed': rng.randrange(1 << 30), 'json': i % 3 == 2, 'headers': i % 7, 'eol': '\n' if i % 5 == 4 else '\r\n', 'inject': i % 4 == 3, 'product': i % 2 == 0, 'cut': ['none', 'in-banner', 'in-header', 'bytewise'][(i // 2) % 4]})
    # the same peers named in a targets file (one entry) and audited as clients (-c): header text and banner are reported the same way in every kind of run
    for i in range(10 if tier == 'quick' else 100):
        cs.append({'kind': 'e2e', 'seed': rng.randrange(1 << 30), 'json': i % 5 == 4, 'headers': 1 + i % 3, 'eol': '\n' if i % 4 == 3 else '\r\n', 'inject': i % 3 == 2, 'product': i % 2 == 0, 'cut': 'none', 'via': ['file', 'client'][i % 2]})
    # a peer that sends no text before its identification string on the audited connection, but does on the later (probe) connections, e.g. a throttling notice: the report is about the first connection
    for i in range(4 if tier == 'quick' else 30):
        cs.append({'kind': 'e2e', 'seed': rng.randrange(1 << 30), 'json': False, 'headers': 0, 'eol': '\r\n', 'inject': False, 'product': i % 2 == 0, 'cut': 'none', 'late_header': ['Exceeded MaxStartups', 'NOTICE: connection rate limited', 'SSH-1.99-decoy banner-like notice'][i % 3]})
    # servers announcing SSH-1.99 (both protocols): the same decomposition, sanitising and flagging
    for i in range(8 if tier == 'quick' else 60):
        cs.append({'kind': 'e2e', 'seed': rng.randrange(1 << 30), 'json': i % 4 == 3, 'headers': i % 3, 'eol': '\r\n', 'inject': i % 2 == 0, 'product': i % 4 < 2, 'cut': 'none', 'proto199': True})
    # a non-printable character as the very last character of the identification line
    for i in range(12 if tier == 'quick' else 80):
        cs.append({'kind': 'e2e', 'seed': rng.randrange(1 << 30), 'json': i % 4 == 3, 'headers': i % 2, 'eol': '\n' if i % 3 == 0 else '\r\n', 'inject': 'end', 'product': i % 2 == 0, 'cut': 'none'})
    for i in range(8 if tier == 'quick' else 60):
        cs.append({'kind': 'e2e', 'seed': rng.randrange(1 << 30), 'json': i % 4 == 3, 'headers': i % 3, 'eol': '\n' if i % 2 == 0 else '\r\n', 'inject': False, 'product': i % 2 == 0, 'cut': ['none', 'in-banner'][(i // 2) % 2], 'blank_first': True})
    # one very long line before the banner (lengths around powers of two), half of them ending in something that looks like an identification string
    longs = [2047, 2048, 2049, 4095, 4096, 4097, 8191, 8192, 8193, 20000] if tier == 'quick' else list(range(2040, 2056)) + list(range(4088, 4104)) + list(range(8184, 8200)) + [16384, 20000, 65536, 70000]
    for i, L in enumerate(longs):
        cs.append({'kind': 'e2e', 'seed': rng.randrange(1 << 30), 'json': i % 3 == 2, 'headers': i % 2, 'eol': '\r\n', 'inject': False, 'product': True, 'cut': 'none', 'long_header': L, 'banner_like_tail': i % 2 == 0})
    return cs


def _v(key, what, **d):
    return {'key': key, 'what': what, 'detail': d}


def run_parse(c):
    from ssh_audit.banner import Banner
    from ssh_audit.software import Software
    rng = random.Random(c['seed'])
    viol = {}
    n = ninj = nprod = ntwin = 0
    for _ in range(c['n']):
        line, exp = gen_line(rng, inject='inject' in c['mode'], product='product' in c['mode'])
        n += 1
        ninj += not exp['valid_ascii']
        # the conforming twin of a line with replaced characters (what the shown text looks like), parsed right before or right after it in the same process: two different lines, two verdicts
        twin = ''.join(ch if 32 <= ord(ch) < 127 else '?' for ch in line) if not exp['valid_ascii'] else None
        if twin is not None and n % 2 == 0:
            tb = Banner.parse(twin)
            ntwin += 1
            if tb is not None and not tb.valid_ascii:
                viol.setdefault('C16/twin-flagged:before', _v('C16/twin-flagged:before', 'a printable-ASCII line is flagged as non-conforming', line=twin))
        b = Banner.parse(line)
        if twin is not None and n % 2 == 1:
            tb = Banner.parse(twin)
            ntwin += 1
            if tb is not None and not tb.valid_ascii:
                viol.setdefault('C16/twin-flagged:after', _v('C16/twin-flagged:after', 'a printable-ASCII line is flagged as non-conforming after a line that differs from it only in replaced characters was parsed', line=twin, other=line))
        if b is None:
            k = 'C16/not-recognised:' + c['mode']
            viol.setdefault(k, _v(k, 'a line of the banner form was not accepted', line=line))
            continue
        got = {'protocol': list(b.protocol), 'software': b.software, 'comments': b.comments, 'valid_ascii': b.valid_ascii}
        for f in ('protocol', 'software', 'comments', 'valid_ascii'):
            if got[f] != exp[f]:
                k = 'C16/part-wrong:%s:%s' % (f, c['mode'])
                viol.setdefault(k, _v(k, 'parsed %s differs from the part the line was built from' % f, line=line, got=got[f], want=exp[f]))
        b2 = Banner.parse(str(b))
        if b2 is None or (list(b2.protocol), b2.software, b2.comments) != (got['protocol'], got['software'], got['comments']):
            k = 'C16/roundtrip:' + c['mode']
            viol.setdefault(k, _v(k, 'parse(render(parse(x))) differs', line=line, rendered=str(b)))
        if exp['product']:
            nprod += 1
            sw = Software.parse(b)
            free = exp['product'] in ('TinySSH', 'PuTTY')  # these families take the whole remainder of the token as version text
            if sw is None or sw.product != exp['product'] or (sw.version != exp['version'] and not (free and sw.version.startswith(exp['version']))):
                k = 'C16/product-wrong:' + exp['product']
                viol.setdefault(k, _v(k, 'product/version not extracted', line=line, got=repr(sw), want=[exp['product'], exp['version']]))
    return list(viol.values()), {'lines_parsed': n, 'injected_lines': ninj, 'product_lines': nprod, 'conforming_twins_parsed': ntwin}


HEADER_POOL = ['Welcome to the machine', '*** NOTICE: authorised use only ***', 'this server speaks SSH-2.0-like protocols', ' leading space line', 'x', 'SSH', 'ssh-2.0-lowercase',
               'Exceeded? no.', 'line with \t tab', '# comment-like header', 'telnet 10.0.0.1 closed.']


def run_e2e(c):
    rng = random.Random(c['seed'])
    line, exp = gen_line(rng, inject=c['inject'], product=c['product'])
    # the audited peer must speak SSH-2 for the handshake to complete: force protocol 2.0
    proto = '1.99' if c.get('proto199') else '2.0'
    line = re.sub(r'^SSH-\d\.\d+', 'SSH-' + proto, line)
    exp['protocol'] = [1, 99] if c.get('proto199') else [2, 0]
    pre = [rng.choice(HEADER_POOL) + rng.choice(['', ' %d' % rng.randint(0, 999)]) for _ in range(c['headers'])]
    if c['headers'] >= 3:
        pre.insert(1, '')   # a blank line carries no text and is not reported
    if c.get('blank_first'):
        pre.insert(0, '')   # ... also when it is the very first thing the peer sends (with LF endings: the first byte of the connection is a newline)
    probes = c['seed'] % 2 == 0 or bool(c.get('late_header'))   # half of the peers answer host-key and group-exchange probes, so the tool reconnects several times and sees the header lines again
    script = {'banner': line, 'pre': pre, 'eol': c['eol'], 'kex': audit.sym_kex(['curve25519-sha256'] + (['diffie-hellman-group-exchange-sha256'] if probes else []), ['ssh-ed25519', 'ssh-rsa'], ['aes128-ctr'], ['hmac-sha2-256']),
              'hostkeys': {'ssh-ed25519': {'type': 'ed25519'}, 'ssh-rsa': {'type': 'rsa', 'bits': 3072}} if probes else {}, 'gex': {'sizes': [3072], 'style': 'strict'} if probes else None}
    # how the identification block reaches the tool: in one write, or cut into two writes (with a pause) inside the banner line / inside a header line, or in tiny segments - a line only counts once it is complete
    head_len = sum(len(wire.nb(x)) + len(c['eol']) for x in pre)
    cut = c.get('cut', 'none')
    if cut == 'in-banner':
        script['faults'] = [{'conn': '*', 'at': 'banner', 'op': 'split', 'offset': head_len + rng.choice([4, 8, 9, 12, max(9, len(wire.nb(line)) - 1), rng.randint(1, max(1, len(wire.nb(line))))]), 'pause': 0.25}]
    elif cut == 'in-header' and head_len > 2:
        script['faults'] = [{'conn': '*', 'at': 'banner', 'op': 'split', 'offset': rng.randint(1, head_len - 1), 'pause': 0.25}]
    elif cut == 'bytewise':
        script['faults'] = [{'conn': 0, 'at': 'banner', 'op': 'segment', 'n': rng.choice([1, 3, 7]), 'delay': 0.004}]
    if c.get('late_header'):
        script['faults'] = [{'conn': {'ge': 1}, 'at': 'banner', 'op': 'prefix', 'hex': (wire.nb(c['late_header']) + b'\r\n').hex()}]
    if c.get('long_header'):
        pre.append('x' * c['long_header'] + ('SSH-2.0-OpenSSH_5.3' if c['banner_like_tail'] else ' y'))
        script['pre'] = pre
    total = sum(len(wire.nb(x)) + 2 for x in pre) + len(wire.nb(line)) + 2
    if total > 1900 and not c.get('long_header'):
        return [], {'e2e_skipped_long': 1}
    args = ['-j'] if c['json'] else ['-n']
    if c.get('via') == 'client':
        r, p = audit.audit_client(dict(script, hostkeys={}, gex=None), args)
        if p.count('connected') == 0:
            return None, {'why': 'client peer could not connect'}
    else:
        r, p = audit.audit_server(script, args, via_file=(c.get('via') == 'file'))
    viol = []
    rendered = 'SSH-' + proto + '-' + exp['software'] + (' ' + exp['comments'] if exp['comments'] else '')
    if r.status not in (0, 2, 3):
        viol.append(_v('C16/e2e-banner-not-accepted', 'audit failed although a well-formed banner line was sent', line=line, pre=pre, status=r.status, out=r.out[-300:]))
        return viol, {'e2e_runs': 1}
    if c['json']:
        try:
            doc = json.loads(r.out)
        except ValueError:
            return None, {'why': 'json unparsable'}
        if isinstance(doc, list):   # a targets-file run prints an array with one element per target
            doc = doc[0] if doc else {}
        b = doc.get('banner', {})
        want = {'raw': rendered, 'protocol': proto, 'software': exp['software'], 'comments': exp['comments']}
        for f in want:
            if b.get(f) != want[f]:
                viol.append(_v('C16/e2e-json-banner:' + f, 'JSON banner object differs from the parts sent', line=line, got=b.get(f), want=want[f]))
    else:
        rep = report.parse_text(r.out)
        if ('(gen) banner: ' + rendered) not in r.out.split('\n'):
            viol.append(_v('C16/e2e-banner-line', 'banner line differs from what was sent (sanitised)', line=line, got=rep.gen_value('banner'), want=rendered))
        heads = [h.rstrip() for h in pre if h.strip()]
        if heads and c.get('long_header'):
            # a very long line may legitimately be shown in pieces: what is demanded is that the header text, in order, is what was sent (and, above, that the banner is the real one)
            m = re.search(r'^\(gen\) header: (.*?)^\(gen\) banner: ', r.out, re.S | re.M)
            got = re.sub(r'\s+', '', m.group(1)) if m else None
            if got != re.sub(r'\s+', '', ''.join(heads)):
                viol.append(_v('C16/e2e-header:long-line', 'the text before the banner is not reported as header text', sent_lengths=[len(h) for h in heads], got_length=len(got) if got is not None else None))
        elif heads:
            # exactly these lines, once, and then the banner line (a header reported twice would still contain the block)
            block = '(gen) header: ' + '\n'.join(heads) + '\n(gen) banner: '
            if block not in r.out:
                viol.append(_v('C16/e2e-header', 'header lines not reported in order as header text', pre=pre, out=r.out[:400]))
        elif '(gen) header:' in r.out:
            viol.append(_v('C16/e2e-header-invented', 'header reported although none was sent', out=r.out[:300]))
        flagged = '(gen) banner contains non-printable ASCII' in r.out
        if flagged != (not exp['valid_ascii']):
            viol.append(_v('C16/e2e-flag', 'non-conforming flag wrong', line=line, flagged=flagged))
        if exp['product']:
            swl = rep.gen_value('software')
            if swl is None or (exp['product'] + ' ' + exp['version']) not in swl:  # a vendor name may precede the product
                viol.append(_v('C16/e2e-software:' + exp['product'], 'software line does not carry product and version', line=line, got=swl))
    return viol, {'e2e_runs': 1, 'e2e_injected_at_end_of_line': 1 if c.get('inject') == 'end' else 0, 'e2e_protocol_1_99': 1 if c.get('proto199') else 0, 'e2e_blank_first_line': 1 if c.get('blank_first') else 0, 'e2e_long_header_lines': 1 if c.get('long_header') else 0, 'e2e_with_header': 1 if pre else 0, 'e2e_cut_inside_a_line': 1 if p.count('fault') else 0, 'e2e_header_then_cut_banner': 1 if pre and cut == 'in-banner' and p.count('fault') else 0,
                  'e2e_text_only_on_later_connections': 1 if c.get('late_header') and p.count('fault') else 0, 'e2e_via_targets_file': 1 if c.get('via') == 'file' else 0, 'e2e_client_audits': 1 if c.get('via') == 'client' else 0}


def run_case(c):
    viol, counters = (run_parse if c['kind'] == 'parse' else run_e2e)(c)
    if viol is None:
        return {'verdict': 'inconclusive', 'why': counters.get('why')}
    return {'violations': viol, 'counters': counters, 'nontrivial': any(v for k, v in counters.items() if not k.startswith('e2e_skipped')),
            'sample': {'case': c, 'observed': counters}, 'sample_kind': c['kind'] + ':' + str(c.get('mode', c.get('json')))}
