"""C14 - software versions are ordered numerically, component by component."""
import random

from harness import audit, report

ID = 'C14'
LEVEL = 'exploration'
SHARDS = 16
RULE = ('version strings with 1-4 dot separated components drawn from {0..12, 99,100,101, 2013..2022} plus product specific patch suffixes; '
        'all ordered pairs of a seeded 400-string set per product through the real Software.compare_version (model: tuple-of-int comparison, '
        'prefix pairs are don\'t-care between equal and shorter<longer), antisymmetry on every pair, transitivity on sampled triples, '
        'Timeframe min/max on synthetic version lists, and end-to-end audits whose banner version decides which algorithms are recommended; '
        'a case (batch) is non-trivial when it evaluated at least one comparison whose two versions differ in a multi-digit component; '
        'distinct = distinct batch specifications')
REQUIRED = {'multi_target_availability_checks': 50, 'pairs': 10000, 'multi_digit_pairs': 100, 'triples': 1000, 'timeframe_updates': 10, 'cli_runs': 10}
ASSUMPTIONS = ['patch suffix rules are the ones the statement names: OpenSSH pN (p1 == none), Dropbear testN before the release, libssh plain',
               'when one version is a strict prefix of the other (7.4 vs 7.4.0) either "equal" or "shorter is older" is accepted']
MANIFEST = {
    'text': 'Exploration: the real compare_version/between_versions/Timeframe code is run on all pairs of a 400-string boundary set per product and on sampled triples against a tuple-of-int model, plus real audits with banners around first-appeared versions; holds on the pairs enumerated.',
    'note': 'Model is component-wise integer comparison written from the statement; CLI part trusts the report parser and the live table for first-appeared versions.',
    'technique': 'runtime differential monitoring of compare_version against a numeric reference model; order-axiom (antisymmetry, transitivity) checking over recorded results; end-to-end relational audits',
}
COMPONENTS = list(range(0, 13)) + [99, 100, 101] + list(range(2013, 2023))
PRODUCTS = {'OpenSSH': 'OpenSSH', 'Dropbear': 'Dropbear SSH', 'libssh': 'libssh'}
MUST = ['9.9', '10.0', '10.1', '9.10', '7.9', '7.10', '0.7.0', '0.10.6', '0.9.6', '0.10.0', '2022.83', '2019.78', '0.53', '0.53.1', '8.9', '8.10', '1.2.2', '2.3.0', '2.10', '2.9', '100.0', '99.9', '12.0', '2.0',
        '8.04', '8.4', '8.5', '08.9', '008.10', '0010.0', '9.09', '0.07.1', '0.010.6', '2020.081', '00.0', '0.00']   # decimal numbers may be written with leading zeros


def version_set(seed, n=400):
    rng = random.Random(seed)
    s = list(MUST)
    seen = set(s)
    while len(s) < n:
        k = rng.choice([1, 2, 2, 2, 3, 3, 4])
        v = '.'.join(('0' * rng.choice([0, 0, 0, 0, 0, 1, 2])) + str(rng.choice(COMPONENTS)) for _ in range(k))
        if v not in seen:
            seen.add(v)
            s.append(v)
    return s


def vt(v):
    return tuple(int(x) for x in v.split('.'))


def patches(product):
    if product == 'OpenSSH':
        return ['', 'p1', 'p2']
    if product == 'Dropbear':
        return ['', 'test1', 'test2']
    return ['']


def patch_rank(product, p):
    if product == 'OpenSSH':
        return {'': 1, 'p1': 1, 'p2': 2}[p]
    if product == 'Dropbear':
        return {'test1': 1, 'test2': 2, '': 3}[p]
    return 0


def model(product, a, pa, b, pb):
    """-1/0/1, or None for don't care (strict prefix)."""
    ta, tb = vt(a), vt(b)
    if ta != tb:
        n = min(len(ta), len(tb))
        if ta[:n] == tb[:n]:
            return None
        return -1 if ta < tb else 1
    ra, rb = patch_rank(product, pa), patch_rank(product, pb)
    return (ra > rb) - (ra < rb)


def multi_digit(a, b):
    ta, tb = vt(a), vt(b)
    for x, y in zip(ta, tb):
        if x != y:
            return len(str(x)) != len(str(y))
    return False


def cases(tier, seed):
    cs = []
    for prod in PRODUCTS:
        for lo in range(0, 400, 25):
            cs.append({'kind': 'pairs', 'product': prod, 'lo': lo, 'hi': lo + 25, 'vseed': seed})
        for i in range(4 if tier == 'quick' else 40):
            cs.append({'kind': 'triples', 'product': prod, 'vseed': seed, 'seed': seed * 1000 + i, 'n': 17000 if tier == 'quick' else 35000})
    cs.append({'kind': 'timeframe', 'vseed': seed})
    rng = random.Random(seed + 14)
    n_cli = 60 if tier == 'quick' else 600
    for i in range(n_cli):
        cs.append({'kind': 'cli', 'seed': rng.randrange(1 << 30), 'i': i})
    for i in range(6 if tier == 'quick' else 60):
        cs.append({'kind': 'cli-multi', 'seed': rng.randrange(1 << 30), 'threads': [1, 2][i % 2]})
    for i in range(4 if tier == 'quick' else 20):
        cs.append({'kind': 'cli-multi', 'seed': rng.randrange(1 << 30), 'threads': 1, 'pre_pair': ['rel-first', 'pre-first'][i % 2]})
    return cs


def sw(product, version, patch):
    from ssh_audit.software import Software
    return Software(None, PRODUCTS[product], version, patch or None, None)


def sign(x):
    return (x > 0) - (x < 0)


def _v(key, what, **d):
    return {'key': key, 'what': what, 'detail': d}


def run_pairs(c):
    vs = version_set(c['vseed'])
    prod = c['product']
    viol, n, nm = {}, 0, 0
    ps = patches(prod)
    for a in vs[c['lo']:c['hi']]:
        for b in vs:
            for pa in ps:
                for pb in (ps if a == b or pa == '' else ['']):
                    n += 1
                    got = sign(sw(prod, a, pa).compare_version(b + pb))
                    rev = sign(sw(prod, b, pb).compare_version(a + pa))
                    want = model(prod, a, pa, b, pb)
                    md = multi_digit(a, b)
                    nm += md
                    if want is not None and got != want:
                        k = 'C14/order-wrong:' + ('multi-digit-component' if md else 'patch' if vt(a) == vt(b) else 'same-width-component')
                        viol.setdefault(k, _v(k, 'compare_version disagrees with numeric order', product=prod, a=a + pa, b=b + pb, got=got, want=want))
                    if want is None and got == 1 and len(vt(a)) < len(vt(b)):
                        k = 'C14/prefix-newer-than-extension'
                        viol.setdefault(k, _v(k, 'a version that is a strict prefix is judged newer', a=a, b=b))
                    if got != -rev:
                        k = 'C14/not-antisymmetric'
                        viol.setdefault(k, _v(k, 'cmp(a,b) != -cmp(b,a)', product=prod, a=a + pa, b=b + pb, ab=got, ba=rev))
                    # between_versions agrees with compare
                    if pa == '' and pb == '':
                        s = sw(prod, a, '')
                        if s.between_versions(b, b) != (got == 0):
                            k = 'C14/between-disagrees'
                            viol.setdefault(k, _v(k, 'between_versions(b,b) != (cmp == 0)', a=a, b=b))
    return list(viol.values()), {'pairs': n, 'multi_digit_pairs': nm}, nm > 0


def run_triples(c):
    vs = version_set(c['vseed'])
    prod = c['product']
    rng = random.Random(c['seed'])
    viol, n, nm = {}, 0, 0
    cache = {}

    def cmp(a, b):
        r = cache.get((a, b))
        if r is None:
            r = cache[(a, b)] = sign(sw(prod, a, '').compare_version(b))
        return r
    pool = vs[:120] if rng.random() < .5 else vs
    for _ in range(c['n']):
        a, b, d = rng.choice(pool), rng.choice(pool), rng.choice(pool)
        n += 1
        nm += multi_digit(a, b) or multi_digit(b, d)
        if cmp(a, b) <= 0 and cmp(b, d) <= 0 and cmp(a, d) > 0:
            k = 'C14/not-transitive'
            viol.setdefault(k, _v(k, 'a<=b and b<=c but a>c', product=prod, a=a, b=b, c=d))
    return list(viol.values()), {'triples': n}, nm > 0


def run_timeframe(c):
    """The compatibility range keeps the numerically largest 'from' and smallest 'till'."""
    from ssh_audit.timeframe import Timeframe
    from ssh_audit.product import Product
    rng = random.Random(c['vseed'])
    viol, n = {}, 0
    vs = [v for v in version_set(c['vseed']) if len(vt(v)) == 2][:80]
    for _ in range(400):
        a, b = rng.sample(vs, 2)
        if vt(a) == vt(b):
            continue   # two spellings of the same number (leading zeros): either may be kept
        for prefix, prod in (('', Product.OpenSSH), ('d', Product.DropbearSSH)):
            tf = Timeframe()
            tf.update([prefix + a, prefix + a]).update([prefix + b, prefix + b])
            tf2 = Timeframe()
            tf2.update([prefix + b, prefix + b]).update([prefix + a, prefix + a])
            n += 2
            hi = a if vt(a) > vt(b) else b
            lo = b if hi == a else a
            for t in (tf, tf2):
                if t.get_from(prod) != hi or t.get_till(prod) != lo:
                    md = multi_digit(a, b)
                    k = 'C14/timeframe-wrong:' + ('multi-digit-component' if md else 'same-width')
                    viol.setdefault(k, _v(k, 'Timeframe from/till is not the numeric max/min', a=a, b=b, got=[t.get_from(prod), t.get_till(prod)], want=[hi, lo]))
    return list(viol.values()), {'timeframe_updates': n}, True


def since_versions(entry, prefix):
    """First-appeared version of a table entry for the product with this version prefix ('' OpenSSH, 'd', 'l1')."""
    v0 = entry[0][0] if entry[0] else None
    if not v0:
        return None
    for v in v0.split(','):
        cli = v.endswith('C')
        if cli:
            continue
        if prefix == '' and not v.startswith('d') and not v.startswith('l1'):
            return v
        if prefix and v.startswith(prefix):
            return v[len(prefix):]
    return None


def run_cli(c):
    """Audit a peer whose banner carries product+version W; a clean algorithm first appearing in V must be
    recommended for addition exactly when W >= V numerically."""
    from ssh_audit.ssh2_kexdb import SSH2_KexDB
    rng = random.Random(c['seed'])
    prod, prefix, fmt = rng.choice([('OpenSSH', '', 'OpenSSH_%s'), ('Dropbear', 'd', 'dropbear_%s'), ('libssh', 'l1', 'libssh_%s')])
    db = SSH2_KexDB.MASTER_DB
    cands = []
    for cat in ('kex', 'key', 'enc'):
        for name, e in db[cat].items():
            if (len(e) > 1 and e[1]) or (len(e) > 2 and e[2]):
                continue
            if '-cert-' in name or name.startswith('sk-') or name.startswith('ext-info') or name.startswith('kex-strict') or name.startswith('chacha20') or '-cbc' in name:
                continue
            v = since_versions(e, prefix)
            if v:
                cands.append((cat, name, v))
    if not cands:
        return [], {'cli_skipped': 1}, False
    cat, name, v = rng.choice(cands)
    tv = vt(v)
    # versions around V including multi-digit neighbours
    choices = [v, '.'.join(map(str, tv[:-1] + (tv[-1] + 1,))), '.'.join(map(str, (tv[0] + 1,) + (0,) * (len(tv) - 1))), '10.0', '10.2', '9.10', '0.10.6', '0.11.0', '2022.83', '12.1',
               '.'.join(map(str, tv[:-1] + (max(tv[-1] - 1, 0),))), '.'.join(map(str, (max(tv[0] - 1, 0),) + (99,)))]
    w = rng.choice(choices)
    want = vt(w) >= tv if not (vt(w)[:min(len(vt(w)), len(tv))] == tv[:min(len(vt(w)), len(tv))] and len(vt(w)) != len(tv)) else None
    script = {'banner': 'SSH-2.0-' + fmt % w,
              'kex': audit.sym_kex(['diffie-hellman-group14-sha256'] if name != 'diffie-hellman-group14-sha256' else ['curve25519-sha256'], ['ssh-ed25519'] if name != 'ssh-ed25519' else ['rsa-sha2-512'],
                                   ['aes128-ctr'] if name != 'aes128-ctr' else ['aes256-ctr'], ['hmac-sha2-256']),
              'hostkeys': {}, 'gex': None}
    r, p = audit.audit_server(script, ['-n'])
    if r.status not in (0, 2, 3):
        return None, {'why': 'audit failed: %s' % r.brief(300)}, False
    rep = report.parse_text(r.out)
    got = any(sgn == '+' and nm == name for sgn, nm, *_ in rep.recs)
    viol = []
    if want is not None and got != want:
        md = multi_digit(w, v)
        viol.append(_v('C14/availability-wrong:' + ('multi-digit-component' if md else 'same-width'), 'algorithm availability does not follow numeric version order',
                       product=prod, banner_version=w, algorithm=name, first_appeared=v, recommended=got, expected=want))
    return viol, {'cli_runs': 1}, True


def run_cli_multi(c):
    """Several servers of the same product at different versions in one multi-target run: for each of them an algorithm is recommended for addition exactly when *its* version is numerically at least the first-appeared version."""
    from ssh_audit.ssh2_kexdb import SSH2_KexDB
    from harness import multi
    import json as _json
    rng = random.Random(c['seed'])
    prod, prefix, fmt = rng.choice([('OpenSSH', '', 'OpenSSH_%s'), ('Dropbear', 'd', 'dropbear_%s')])
    versions = rng.sample(['5.3', '6.6', '7.4', '8.5', '9.9', '10.0', '12.1'] if prod == 'OpenSSH' else ['0.52', '2012.55', '2016.74', '2020.81', '2022.83', '2013.58'], 3)
    if c.get('pre_pair'):
        # a Dropbear release in which something first appeared and a pre-release ("testN") of the same number in one run, in either order: the pre-release is older than the release, whichever is scanned first
        prod, prefix, fmt = 'Dropbear', 'd', 'dropbear_%s'
        # ... among the releases in which an algorithm this check can judge (rated clean, not advertised by the peers below) first appeared
        thrs = sorted({since_versions(e, 'd') for cat in ('kex', 'key', 'enc') for name, e in SSH2_KexDB.MASTER_DB[cat].items()
                       if not ((len(e) > 1 and e[1]) or (len(e) > 2 and e[2])) and since_versions(e, 'd') and name != 'aes128-ctr'
                       and not ('-cert-' in name or name.startswith(('sk-', 'ext-info', 'kex-strict', 'chacha20')) or '-cbc' in name)})
        thr = rng.choice(thrs)
        versions = [thr, thr + 'test%d' % rng.randint(1, 3)]
        if c['pre_pair'] == 'pre-first':
            versions.reverse()
        versions.append('2012.55')
    db = SSH2_KexDB.MASTER_DB
    adv = {'kex': ['diffie-hellman-group14-sha1'], 'key': ['ssh-dss'], 'enc': ['aes128-ctr'], 'mac': ['hmac-sha2-256']}
    targets = []
    for v in versions:
        targets.append(multi.Target(v, {'banner': 'SSH-2.0-' + fmt % v, 'kex': audit.sym_kex(adv['kex'], adv['key'], adv['enc'], adv['mac']), 'hostkeys': {}, 'hostkey_default': None, 'gex': None}))
    try:
        res = multi.run_multi(targets, c['threads'], 'json', timeout=120)
    finally:
        for t in targets:
            t.stop()
    viol, n = [], 0
    for t in targets:
        docs = (res.get('docs') or {}).get(t.spec) or []
        if not docs:
            viol.append(_v('C14/multi-target-entry-missing', 'no JSON entry for a target', err=res.get('json_error')))
            continue
        added = {(cat, e['name']) for lvl, acts in (docs[0].get('recommendations') or {}).items() for cat, lst in (acts.get('add') or {}).items() for e in lst}
        for cat in ('kex', 'key', 'enc'):
            for name, e in db[cat].items():
                if (len(e) > 1 and e[1]) or (len(e) > 2 and e[2]) or name in adv[cat]:
                    continue
                if '-cert-' in name or name.startswith('sk-') or name.startswith('ext-info') or name.startswith('kex-strict') or name.startswith('chacha20') or '-cbc' in name:
                    continue
                fv = since_versions(e, prefix)
                if not fv:
                    continue
                pre = 'test' in t.name
                tv, tw = vt(fv), vt(t.name.split('test')[0])
                m = min(len(tv), len(tw))
                if tv[:m] == tw[:m] and len(tv) != len(tw):
                    continue
                want = tw >= tv and not (pre and tw == tv)
                n += 1
                if ((cat, name) in added) != want:
                    viol.append(_v('C14/availability-wrong:multi-target', 'in a multi-target run an algorithm\'s availability for a target does not follow that target\'s numeric version', product=prod, target_version=t.name, versions_in_run=versions,
                                   algorithm=name, first_appeared=fv, recommended=(cat, name) in added, expected=want))
                    break
    seen, uniq = set(), []
    for v in viol:
        if v['key'] not in seen:
            seen.add(v['key'])
            uniq.append(v)
    return uniq, {'cli_runs': 1, 'multi_target_availability_checks': n, 'release_and_prerelease_in_one_run': 1 if c.get('pre_pair') else 0}, n > 0


def run_case(c):
    fn = {'cli-multi': run_cli_multi, 'pairs': run_pairs, 'triples': run_triples, 'timeframe': run_timeframe, 'cli': run_cli}[c['kind']]
    viol, counters, nontrivial = fn(c)
    if viol is None:
        return {'verdict': 'inconclusive', 'why': counters.get('why')}
    return {'violations': viol, 'counters': counters, 'nontrivial': nontrivial, 'sample': {'case': c, 'observed': counters}, 'sample_kind': c['kind']}
