"""C19 - a standard audit's footprint on the target is small and bounded."""
import itertools
import os
import random

from harness import audit, gen, peer as peermod, report, runner, wire
from props import c06, c09

ID = 'C19'
LEVEL = 'fault_enumeration'
SHARDS = 16
THREADS = 4
RULE = ('one case = one real standard or policy audit under the socket / call / process-spawn monitors against a scripted server from these families: cooperative servers with generated name lists (with and without --skip-rate-test), '
        'moduli policies (C12 family), host-key lists (C11 family), servers that refuse / stall / send garbage at each stage (C09 operators on banner, KEXINIT, probe replies), SSH-1 fallback, client audits, and a rate-phase family '
        '(accepts and closes at once, accepts and stays silent, stops listening, answers "Exceeded MaxStartups", answers slowly, answers normally).  Oracle over the peer\'s connection log and the in-process log: '
        'sockets created <= 1 (+1 SSH-1 fallback) + distinct probed host-key types + 9 x group-exchange algorithms + (41 for the rate check, 0 when skipped / client audit / no DH key exchange); KEXDH_INIT / GEX_REQUEST / GEX_INIT never on the first connection and '
        'at most one exchange per connection; no socket open at exit; DHEat.run / interactive rate test / process spawns never happen.  Non-trivial: the monitor saw >= 1 socket and the peer >= 1 connection; distinct = distinct (server behaviour, options)')
REQUIRED = {'rate_phase_runs_with_other_timeouts': 2, 'ssh1_fallback_refused_again': 1, 'multi_target_footprints': 15, 'audits': 100, 'sockets_created': 300, 'connections_logged': 300, 'rate_phase_runs': 10, 'census_checks': 100, 'kex_requests_seen': 50}
ASSUMPTIONS = ['"a fixed handful for group-exchange probing" = at most 9 connections per advertised group-exchange algorithm (1 range probe + 7 sizes + 1 OpenSSH follow-up); "a few dozen" for the rate check = at most 38 + 3 connection attempts',
               'closing is decided inside the process (weak-reference census of socket objects at interpreter exit), because at the peer every connection ends at process exit anyway']
MANIFEST = {
    'text': 'Fault enumeration over server behaviours: every case is a real audit watched from both sides - the scripted server logs connections and message types, the in-process monitor counts sockets created/closed and calls into the DoS code - and compared with the connection budget derived from what the server advertised.',
    'note': 'Budget is computed from the advertised lists (ground truth of the peer); in-process counts come from a recording socket class and call wrappers injected by the launcher; trusts both logs.',
    'technique': 'two-sided runtime monitoring (peer connection log + in-process socket census and call monitor) with a conservation-style budget oracle, under injected faults',
}
RSA_FAMILY = ('ssh-rsa', 'rsa-sha2-256', 'rsa-sha2-512')
DH_KEX = None


def dh_names():
    global DH_KEX
    if DH_KEX is None:
        from ssh_audit.dheat import DHEat
        DH_KEX = set(DHEat.alg_priority) | set(DHEat.gex_algs)
    return DH_KEX


def cases(tier, seed):
    rng = random.Random(seed * 67 + 19)
    cs = []
    n = 40 if tier == 'quick' else 500
    for i in range(n):
        cs.append({'fam': 'coop', 'seed': rng.randrange(1 << 30), 'skip': i % 3 != 0, 'policy': i % 10 == 9})
    sizes_pool = [[1024], [2048], [4096], [1024, 4096], [2048, 3072, 4096], [8192], [512, 768], [3072]]
    for i in range(18 if tier == 'quick' else 200):
        cs.append({'fam': 'moduli', 'sizes': sizes_pool[i % len(sizes_pool)], 'style': ['strict', 'roundup', 'openssh'][i % 3], 'banner': ['openssh', 'other'][i % 2], 'both': i % 4 == 0, 'skip': i % 5 != 0})
    keysets = [['ssh-rsa'], ['ssh-rsa', 'rsa-sha2-256', 'rsa-sha2-512'], ['ssh-ed25519', 'ssh-rsa'], ['ssh-rsa-cert-v01@openssh.com', 'ssh-ed25519-cert-v01@openssh.com', 'ssh-ed25519'],
               ['ecdsa-sha2-nistp256', 'ecdsa-sha2-nistp384', 'ecdsa-sha2-nistp521', 'ssh-dss', 'ssh-ed448'], ['ssh-ed25519', 'ssh-ed25519', 'ssh-rsa', 'ssh-rsa'], ['zzunknown-key@example.com', 'ssh-ed25519']]
    for i, ks in enumerate(keysets * (1 if tier == 'quick' else 6)):
        cs.append({'fam': 'hostkeys', 'keys': ks, 'kexname': ['curve25519-sha256', 'diffie-hellman-group14-sha256', 'diffie-hellman-group-exchange-sha256', 'ecdh-sha2-nistp256'][i % 4], 'skip': i % 2 == 0})
    # faults at each stage (a sample of the C09 operators), rate test skipped so that only the probe budget applies
    k = 0
    for T in ('T2', 'T3', 'T4'):
        msgs = c09.messages(T)
        for label, (data, conns) in msgs.items():
            for conn in conns:
                ops = [{'op': 'close_before'}, {'op': 'stall_before'}, {'op': 'truncate', 'offset': len(data) // 2, 'then': 'close'}, {'op': 'random', 'seed': 3}, {'op': 'dup'}]
                for o in ops:
                    k += 1
                    if tier == 'quick' and k % 3 != seed % 3:
                        continue
                    cs.append(dict(o, fam='fault', T=T, conn=conn, at=label))
    # well-formed but degenerate probe answers (the server stays connected afterwards): parsing succeeds, arithmetic fails
    from harness import wire as _w
    for pv, gv in ((3, 2), (5, 2), (0, 2), (1, 1), (6, 0)):
        cs.append({'fam': 'fault', 'T': 'T3', 'op': 'crafted', 'conn': 'probe', 'at': 'gexgroup', 'what': 'degenerate-group:p=%d' % pv, 'hex': _w.packet(_w.gex_group(pv, gv)).hex()})
    # ... once only: the next probe connections are answered normally again (whatever the failed one left behind in the tool shows up there)
    for conn, pv in ((1, 5), (2, 5), (2, 3), (3, 6)):
        cs.append({'fam': 'fault', 'T': 'T3', 'op': 'crafted', 'conn': conn, 'at': 'gexgroup', 'what': 'degenerate-group-once:p=%d' % pv, 'hex': _w.packet(_w.gex_group(pv, 2)).hex()})
    for what, blob in (('rsa-zero-modulus', _w.string('ssh-rsa') + _w.mpint(65537) + _w.mpint(0)), ('type-only', _w.string('ssh-rsa')), ('empty-blob', b'')):
        cs.append({'fam': 'fault', 'T': 'T2', 'op': 'crafted', 'conn': 'probe', 'at': 'kexreply', 'what': 'hostkey:' + what, 'hex': _w.packet(_w.kex_reply(31, blob)).hex()})
    for beh in ('normal', 'accept-close', 'silent', 'stop-listening', 'serve-some-then-close', 'exceeded', 'slow', 'garbage'):
        for rep_ in range(2 if tier == 'quick' else 10):
            cs.append({'fam': 'rate', 'behaviour': beh, 'gex': rep_ % 2 == 1})
    # the budget of the rate check does not depend on the timeout the user sets
    for i, tmo in enumerate([60, 2, 120] if tier == 'quick' else [60, 2, 120, 16, 30, 600, 3600]):
        cs.append({'fam': 'rate', 'behaviour': ['normal', 'normal', 'accept-close'][i % 3], 'gex': False, 'tmo': tmo})
    # several targets in one run: the footprint on each target follows what that target advertises, whatever was scanned before it
    for i, order in enumerate([['gex', 'gex', 'plain'], ['plain', 'gex', 'gex'], ['gex', 'plain', 'gex', 'plain']] if tier == 'quick' else [list(o) for o in itertools.product(['gex', 'plain', 'gex1'], repeat=3)]):
        for th in (1, 2):
            cs.append({'fam': 'multi', 'order': order, 'threads': th})
    for i in range(3 if tier == 'quick' else 10):
        cs.append({'fam': 'ssh1', 'i': i})
        cs.append({'fam': 'client', 'seed': rng.randrange(1 << 30)})
    return cs


def _v(key, what, **d):
    return {'key': key, 'what': what, 'detail': d}


def budget(kex, skip, client=False, ssh1=False):
    keys = set(kex['key'])
    n_keys = len({('rsa' if kname in RSA_FAMILY else kname) for kname in keys})
    n_gex = sum(1 for x in set(kex['kex']) if x in ('diffie-hellman-group-exchange-sha1', 'diffie-hellman-group-exchange-sha256'))
    b = 1 + n_keys + 9 * n_gex
    rate = 0
    if not skip and not client and any(x in dh_names() for x in kex['kex']):
        rate = 41
    return b, rate


def check_footprint(r, p, kex, skip, viol, counters, client=False, ssh1=False, tag=''):
    mon = r.monitor or []
    created = sum(1 for e in mon if e['k'] == 'sock-new' and not e.get('from_fd'))
    counters['sockets_created'] = created
    conns = len(p.conns)
    counters['connections_logged'] = conns
    counters['audits'] = 1
    if ssh1:
        b, rate = 2, 0
    elif client:
        b, rate = 2, 0       # two listening sockets; the accepted one is created from a file descriptor
    else:
        b, rate = budget(kex, skip)
    if created > b + rate:
        viol.append(_v('C19/too-many-connections:%s' % tag, 'the audit opened more connections than the budget for what the server advertised', created=created, budget=b, rate_budget=rate, peer_connections=conns))
    if conns > b + rate:
        viol.append(_v('C19/too-many-accepted-connections:%s' % tag, 'the server accepted more connections than the budget', accepted=conns, budget=b + rate))
    # key-exchange computation requests
    nreq = 0
    for cn in p.conns:
        types = [t for (t, _pl, ok, _w) in cn.packets if ok]
        n30, n34, n32 = types.count(30), types.count(34), types.count(32)
        nreq += n30 + n34
        if cn.idx == 0 and (n30 or n34 or n32) and not client:
            viol.append(_v('C19/kex-request-on-first-connection:%s' % tag, 'a key-exchange computation request was sent on the initial handshake connection', types=types))
        # a computation request belongs to a probe exchange: it follows the tool's own KEXINIT on that connection (and a group-exchange init follows its request)
        firstreq = min([types.index(t) for t in (30, 32, 34) if t in types] or [len(types)])
        if firstreq < len(types) and 20 not in types[:firstreq]:
            viol.append(_v('C19/kex-request-before-kexinit:%s' % tag, 'a key-exchange computation request was sent on a connection before the tool\'s KEXINIT, outside of any probe exchange', types=types, conn=cn.idx))
        elif 32 in types and 34 not in types[:types.index(32)]:
            viol.append(_v('C19/gex-init-without-request:%s' % tag, 'a group-exchange init was sent without a preceding group-exchange request on that connection', types=types, conn=cn.idx))
        if firstreq < len(types):
            counters['request_order_checks'] = counters.get('request_order_checks', 0) + 1
        if n30 > 1 or n34 > 1 or n32 > 1 or (n30 and n34):
            viol.append(_v('C19/several-kex-requests-on-one-connection:%s' % tag, 'more than one key exchange was started on one connection', types=types, conn=cn.idx))
    counters['kex_requests_seen'] = nreq
    # closing
    census = [e for e in mon if e['k'] == 'census']
    if census:
        counters['census_checks'] = 1
        if census[0].get('open_at_exit'):
            viol.append(_v('C19/socket-open-at-exit:%s' % tag, 'socket objects were still open when the process exited', ids=census[0]['open_at_exit'][:5], created=census[0].get('created')))
    elif r.status in (0, 1, 2, 3):
        viol.append(_v('C19/no-census', 'the exit census of the socket monitor is missing (monitor not reached)'))
    # features that must be explicitly requested
    if any(e['k'] == 'dheat-run-enter' for e in mon) or any(e['k'] == 'dheat-worker-enter' for e in mon):
        viol.append(_v('C19/dheat-ran-unrequested', 'the denial-of-service code ran without --dheat'))
    if any(e['k'] == 'rate-test-enter' and e.get('interactive') for e in mon):
        viol.append(_v('C19/interactive-rate-test-unrequested', 'the interactive connection-rate flood ran without --conn-rate-test'))
    if any(e['k'] == 'rate-test-enter' for e in mon) and skip:
        viol.append(_v('C19/rate-test-despite-skip', 'the rate check ran although --skip-rate-test was given'))
    if any(e['k'] == 'spawn' for e in mon):
        viol.append(_v('C19/process-spawned', 'a process was spawned during a standard audit', events=[e.get('event') for e in mon if e['k'] == 'spawn'][:3]))
    # simultaneous connections, measured inside the process (exact event order; the peer notices closes with a lag)
    conc = live = 0
    ids = set()
    for e in mon:
        if (e['k'] == 'connect-ok' or (e['k'] == 'connect_ex' and e.get('ret') in (0, 115))) and e.get('id') not in ids:
            # a connection that was established or is being established (a refused connect_ex never becomes a connection)
            live += 1
            ids.add(e.get('id'))
            conc = max(conc, live)
        elif e['k'] in ('sock-close', 'sock-gone') and e.get('id') in ids:
            ids.discard(e.get('id'))
            live -= 1
    counters['max_concurrency_seen'] = max(counters.get('max_concurrency_seen', 0), conc)
    # reported as an observation only: the statement bounds the number of connections, not their overlap, and sockets whose connect is refused are dropped rather than closed


MON = ['sockets', 'audit', 'calls']


def run_case(c):
    fam = c['fam']
    viol, counters = [], {}
    rng = random.Random(c.get('seed', 1))
    names = audit.db_names()
    if fam == 'coop':
        k = gen.random_kex(rng, names, {'db': 8, 'gss': 1, 'unknown': 1}, (1, 9))
        if rng.random() < .4:
            k['kex'] = k['kex'] + rng.sample(gen.GEX_KEX, rng.randint(1, 2))
        script = {'banner': 'SSH-2.0-OpenSSH_9.%d' % rng.randint(0, 9), 'kex': k, 'hostkeys': gen.hostkeys_for(k['key']), 'gex': {'sizes': [2048, 4096], 'style': 'openssh'}}
        args = ['-n'] + (['--skip-rate-test'] if c['skip'] else [])
        d = None
        try:
            if c['policy']:
                d = runner.scratch_dir('c19')
                pol = c06.base_pol(0)
                pol['kex'] = k['kex']
                pf = os.path.join(d, 'p.txt')
                open(pf, 'w').write(c06.policy_text(pol, 'c19'))
                args += ['-P', pf]
            r, p = audit.audit_server(script, args, monitors=MON, base=[], cwd=d, timeout=120)
        finally:
            if d:
                runner.cleanup(d)
        if not c['skip']:
            counters['rate_phase_runs'] = 1
        check_footprint(r, p, k, c['skip'], viol, counters, tag='coop')
    elif fam == 'moduli':
        kex = ['curve25519-sha256', 'diffie-hellman-group-exchange-sha256'] + (['diffie-hellman-group-exchange-sha1'] if c['both'] else [])
        k = audit.sym_kex(kex, ['ssh-ed25519'], ['aes128-ctr'], ['hmac-sha2-256'])
        script = {'banner': 'SSH-2.0-OpenSSH_8.9' if c['banner'] == 'openssh' else 'SSH-2.0-dropbear_2022.83', 'kex': k, 'hostkeys': {'ssh-ed25519': {'type': 'ed25519'}}, 'gex': {'sizes': c['sizes'], 'style': c['style']}}
        r, p = audit.audit_server(script, ['-n'] + (['--skip-rate-test'] if c['skip'] else []), monitors=MON, base=[], timeout=120)
        if not c['skip']:
            counters['rate_phase_runs'] = 1
        check_footprint(r, p, k, c['skip'], viol, counters, tag='moduli')
    elif fam == 'hostkeys':
        k = audit.sym_kex([c['kexname'], 'sntrup761x25519-sha512@openssh.com'], c['keys'], ['aes128-ctr'], ['hmac-sha2-256'])
        script = {'banner': 'SSH-2.0-OpenSSH_9.1', 'kex': k, 'hostkeys': gen.hostkeys_for(c['keys']), 'gex': {'sizes': [3072], 'style': 'strict'}}
        r, p = audit.audit_server(script, ['-n'] + (['--skip-rate-test'] if c['skip'] else []), monitors=MON, base=[], timeout=120)
        if not c['skip']:
            counters['rate_phase_runs'] = 1
        check_footprint(r, p, k, c['skip'], viol, counters, tag='hostkeys')
    elif fam == 'fault':
        cc = dict(c)
        cc['T'] = c['T']
        script = c09.build(cc)
        r, p = audit.audit_server(script, ['-n', '-t', '1', '--skip-rate-test'], monitors=MON, base=[], timeout=120)
        if r.timed_out:
            return {'verdict': 'inconclusive', 'why': 'watchdog'}
        check_footprint(r, p, script['kex'], True, viol, counters, tag='fault')
    elif fam == 'rate':
        kex = ['curve25519-sha256', 'diffie-hellman-group14-sha256'] + (['diffie-hellman-group-exchange-sha256'] if c['gex'] else [])
        k = audit.sym_kex(kex, ['ssh-ed25519'], ['aes128-ctr'], ['hmac-sha2-256'])
        first_rate_conn = 2 + (9 if c['gex'] else 0)   # handshake + one host key probe (+ group-exchange probes)
        script = {'banner': 'SSH-2.0-OpenSSH_9.1', 'kex': k, 'hostkeys': {'ssh-ed25519': {'type': 'ed25519'}}, 'gex': {'sizes': [2048, 3072, 4096], 'style': 'strict'}, 'linger': 5, 'finish_wait': 0.5}
        sel = {'ge': first_rate_conn - (5 if c['gex'] else 0)} if False else {'ge': first_rate_conn}
        beh = c['behaviour']
        if c['gex']:
            # with a strict [2048,3072,4096] policy the tool needs: range probe (refused), 512..1536 (refused), 2048 (answered) = 6 connections, then for an OpenSSH banner one more
            sel = {'ge': 2 + 7}
        if beh == 'accept-close':
            script['faults'] = [{'conn': sel, 'at': 'banner', 'op': 'close_before'}]
        elif beh == 'serve-some-then-close':
            # MaxStartups-like: four connections of the rate check get a banner (and count as opened), every later one is closed at once - whatever the timing, the budget of attempts still holds
            script['faults'] = [{'conn': {'ge': sel['ge'] + 4}, 'at': 'banner', 'op': 'close_before'}]
        elif beh == 'silent':
            script['faults'] = [{'conn': sel, 'at': 'banner', 'op': 'stall_before'}]
        elif beh == 'exceeded':
            script['faults'] = [{'conn': sel, 'at': 'banner', 'op': 'replace', 'hex': b'Exceeded MaxStartups\r\n'.hex()}, {'conn': sel, 'at': 'banner', 'op': 'then_close'}]
        elif beh == 'slow':
            script['faults'] = [{'conn': sel, 'at': 'banner', 'op': 'delay', 'secs': 0.4}]
        elif beh == 'garbage':
            script['faults'] = [{'conn': sel, 'at': 'banner', 'op': 'random', 'seed': 4, 'len': 40}, {'conn': sel, 'at': 'banner', 'op': 'then_close'}]
        pr = peermod.ServerPeer(script)
        if beh == 'stop-listening':
            import threading
            import time
            until = sel['ge']

            def stopper():
                end = time.monotonic() + 30
                while time.monotonic() < end and len(pr.conns) < until:
                    time.sleep(0.002)
                # wait for that last probe connection to finish, then refuse everything
                while time.monotonic() < end and pr.open_conns():
                    time.sleep(0.002)
                pr.stop_listening()
            threading.Thread(target=stopper, daemon=True).start()
        try:
            r = runner.run_cli(['-n'] + (['-t', str(c['tmo'])] if c.get('tmo') else []) + [pr.target()], monitors=MON, timeout=120)
        finally:
            pr.stop()
        if r.timed_out:
            return {'verdict': 'inconclusive', 'why': 'watchdog'}
        counters['rate_phase_runs'] = 1
        counters['rate_phase_runs_with_other_timeouts'] = 1 if c.get('tmo') else 0
        if not any(e['k'] == 'rate-test-enter' for e in (r.monitor or [])):
            return {'verdict': 'inconclusive', 'why': 'rate phase not reached: status %s' % r.status}
        check_footprint(r, pr, k, False, viol, counters, tag='rate:' + beh)
        p = pr
    elif fam == 'multi':
        from harness import multi
        kinds = {'gex': ['curve25519-sha256', 'diffie-hellman-group-exchange-sha256'], 'gex1': ['curve25519-sha256', 'diffie-hellman-group-exchange-sha1', 'diffie-hellman-group-exchange-sha256'], 'plain': ['curve25519-sha256']}
        targets = []
        for n in c['order']:
            kk = audit.sym_kex(kinds[n], ['ssh-ed25519'], ['aes128-ctr'], ['hmac-sha2-256'])
            targets.append(multi.Target(n, {'banner': 'SSH-2.0-OpenSSH_9.1', 'kex': kk, 'hostkeys': {'ssh-ed25519': {'type': 'ed25519'}}, 'gex': {'sizes': [3072], 'style': 'strict'}}))
        try:
            res = multi.run_multi(targets, c['threads'], 'text', monitors=MON, timeout=180)
        finally:
            for t in targets:
                t.stop()
        r = res['run']
        if r.timed_out:
            return {'verdict': 'inconclusive', 'why': 'watchdog'}
        counters['multi_target_runs'] = 1
        for t in targets:
            kk = t.script['kex']
            b, _rate = budget(kk, True)
            n = len(t.peer.conns)
            counters['multi_target_footprints'] = counters.get('multi_target_footprints', 0) + 1
            if n > b:
                viol.append(_v('C19/too-many-accepted-connections:multi-target:' + t.name, 'in a multi-target run a target accepted more connections than the budget for what it advertises', accepted=n, budget=b, order=c['order']))
            asked = {x for e in t.peer.events if e['kind'] == 'client-kexinit' and len(e['kex']) == 1 for x in e['kex']}   # probe connections name exactly one key exchange (the first connection carries the tool's whole list)
            alien = sorted(x for x in asked if x not in kk['kex'] and not x.startswith(('ext-info', 'kex-strict')))
            if alien:
                viol.append(_v('C19/probe-for-unadvertised-kex:multi-target', 'a target was probed with a key exchange it does not advertise', names=alien, order=c['order']))
        counters['sockets_created'] = sum(1 for e in (r.monitor or []) if e['k'] == 'sock-new' and not e.get('from_fd'))
        counters['connections_logged'] = sum(len(t.peer.conns) for t in targets)
        counters['audits'] = len(targets)
        if counters['sockets_created'] > sum(budget(t.script['kex'], True)[0] for t in targets):
            viol.append(_v('C19/too-many-connections:multi-target', 'a multi-target run opened more connections than the budgets of its targets together', created=counters['sockets_created'], order=c['order']))
        p = targets[0].peer
        k = None
    elif fam == 'ssh1':
        script = {'banner': 'SSH-1.5-OpenSSH_1.2.3', 'proto': 1, 'ssh1': {'cmask': 0x48, 'amask': 0x0c}}
        if c['i'] % 3 == 2:
            # a peer that answers the SSH-1 fall-back connection the way it answered the first one ("Protocol major versions differ."): still one fall-back, two connections
            del script['ssh1']
            counters['ssh1_fallback_refused_again'] = 1
        r, p = audit.audit_server(script, ['-n'], monitors=MON, base=[], timeout=60)
        check_footprint(r, p, None, False, viol, counters, ssh1=True, tag='ssh1' + ('' if 'ssh1' in script else ':differ-again'))
        if r.status not in (0, 1, 2, 3):
            viol.append(_v('C19/ssh1-fallback-ended-abnormally', 'the audit of an SSH-1-only peer ended with an undocumented status', status=r.status, tail=(r.out + r.err)[-300:]))
    elif fam == 'client':
        k = gen.random_kex(rng, names, {'db': 1}, (1, 6))
        r, p = audit.audit_client({'banner': 'SSH-2.0-OpenSSH_9.0', 'kex': k}, ['-n'], monitors=MON)
        if p.count('connected') == 0:
            return {'verdict': 'inconclusive', 'why': 'client peer could not connect'}
        check_footprint(r, p, k, True, viol, counters, client=True, tag='client')
    seen, uniq = set(), []
    for v in viol:
        if v['key'] not in seen:
            seen.add(v['key'])
            uniq.append(v)
    return {'violations': uniq, 'counters': counters, 'nontrivial': counters.get('sockets_created', 0) > 0 and counters.get('connections_logged', 0) > 0,
            'sample': {'case': c, 'status': r.status, 'sockets_created': counters.get('sockets_created'), 'peer_connections': counters.get('connections_logged'), 'max_concurrency': counters.get('max_concurrency_seen')},
            'sample_kind': fam + str(c.get('behaviour', ''))}


def extra_evidence(results):
    by = {}
    for r in results:
        smp = r.get('sample') or {}
        c = r.get('case') or {}
        k = c.get('fam', '?') + (':' + c['behaviour'] if c.get('behaviour') else '')
        d = by.setdefault(k, {'audits': 0, 'sockets_created': 0, 'peer_connections': 0, 'max_sockets_in_one_audit': 0})
        d['audits'] += 1
        d['sockets_created'] += smp.get('sockets_created') or 0
        d['peer_connections'] += smp.get('peer_connections') or 0
        d['max_sockets_in_one_audit'] = max(d['max_sockets_in_one_audit'], smp.get('sockets_created') or 0)
    return {'observed_by_family': by}
