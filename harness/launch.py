"""In-process monitor injection, then run the real, unmodified CLI.

usage: launch.py <log-path> <spec-json> -- <cli args...>

spec: {"monitors": ["sockets","audit","calls","tables","switch","resolver"], "resolver": {...}}
Monitors only record (JSON lines to <log-path>); they never raise into the program and never
change what it computes, except the 'resolver' double (C18) which answers name lookups from a
script and redirects connects to a local peer after recording the requested endpoint.
"""
import atexit
import json
import os
import runpy
import sys
import threading
import time
import weakref

REPO = os.environ.get('VERIF_REPO', '/repo')
CLI = os.path.join(REPO, 'ssh-audit.py')

_log_lock = threading.Lock()
_log_fh = None
_n_events = 0
MAX_EVENTS = 40000
_counts = {}
T0 = time.monotonic()


def emit(kind, **kw):
    global _n_events
    with _log_lock:
        _counts[kind] = _counts.get(kind, 0) + 1
        _n_events += 1
        if (_n_events > MAX_EVENTS and kind not in ('census', 'exit', 'master-digest')) or _log_fh is None:
            return
        kw['k'] = kind
        kw['t'] = round(time.monotonic() - T0, 4)
        kw['th'] = threading.get_ident()
        try:
            _log_fh.write(json.dumps(kw, default=repr) + '\n')
        except Exception:
            pass


def install_sockets():
    import socket
    base = socket.socket
    alive = weakref.WeakSet()
    created = [0]

    class RecSocket(base):
        def __init__(self, *a, **kw):
            super().__init__(*a, **kw)
            created[0] += 1
            self._v_id = created[0]
            self._v_closed = False
            alive.add(self)
            emit('sock-new', id=self._v_id, family=int(self.family), from_fd=kw.get('fileno') is not None)
            # a socket object may also go away without close() (dropped reference): record that as well
            fin = weakref.finalize(self, emit, 'sock-gone', id=self._v_id)
            fin.atexit = False

        def connect(self, addr):
            emit('connect', id=self._v_id, addr=list(addr[:2]), timeout=self.gettimeout())
            try:
                r = super().connect(addr)
                emit('connect-ok', id=self._v_id)
                return r
            except BaseException as e:
                emit('connect-err', id=self._v_id, err=type(e).__name__)
                raise

        def connect_ex(self, addr):
            r = super().connect_ex(addr)
            emit('connect_ex', id=self._v_id, addr=list(addr[:2]), ret=r)
            return r

        def settimeout(self, v):
            emit('settimeout', id=self._v_id, v=v)
            return super().settimeout(v)

        def recv(self, *a):
            to = self.gettimeout()
            try:
                d = super().recv(*a)
                emit('recv', id=self._v_id, timeout=to, out='data' if d else 'eof', n=len(d))
                return d
            except BaseException as e:
                emit('recv', id=self._v_id, timeout=to, out='timeout' if isinstance(e, TimeoutError) else 'error:' + type(e).__name__)
                raise

        def accept(self):
            to = self.gettimeout()
            emit('accept-call', id=self._v_id, timeout=to)
            return super().accept()

        def close(self):
            if not self._v_closed:
                self._v_closed = True
                emit('sock-close', id=self._v_id)
            return super().close()

        def detach(self):
            self._v_closed = True
            return super().detach()

    socket.socket = RecSocket

    def census():
        import gc
        gc.collect()
        leaked = [s._v_id for s in list(alive) if not s._v_closed and s.fileno() != -1]
        emit('census', created=created[0], open_at_exit=leaked)
    atexit.register(census)


def install_audit():
    def hook(event, args):
        try:
            if event == 'socket.getaddrinfo':
                emit('getaddrinfo', host=args[0] if not isinstance(args[0], bytes) else args[0].decode('latin-1'), port=args[1], family=int(args[2]), type=int(args[3]))
            elif event == 'socket.bind':
                emit('bind', addr=list(args[1][:2]) if isinstance(args[1], tuple) else repr(args[1]))
            elif event in ('subprocess.Popen', 'os.fork', 'os.posix_spawn', 'os.exec', 'os.system'):
                emit('spawn', event=event)
        except Exception:
            pass
    sys.addaudithook(hook)


def _wrap(obj, name, kind, arginfo=None):
    orig = getattr(obj, name)
    raw = orig.__func__ if isinstance(orig, (staticmethod, classmethod)) else orig

    def wrapper(*a, **kw):
        info = {}
        if arginfo:
            try:
                info = arginfo(*a, **kw)
            except Exception:
                info = {}
        emit(kind + '-enter', **info)
        try:
            r = orig(*a, **kw)
            emit(kind + '-exit', ret=r if isinstance(r, (int, str, bool, type(None))) else None)
            return r
        except BaseException as e:
            emit(kind + '-raise', err=type(e).__name__)
            raise
    wrapper.__wrapped__ = raw
    return wrapper


def install_calls():
    import ssh_audit.ssh_audit as sa
    from ssh_audit.dheat import DHEat
    DHEat.run = _wrap(DHEat, 'run', 'dheat-run')
    DHEat.worker_process = _wrap(DHEat, 'worker_process', 'dheat-worker')
    orig_rate = DHEat.dh_rate_test
    DHEat.dh_rate_test = staticmethod(_wrap(DHEat, 'dh_rate_test', 'rate-test', lambda out, aconf, kex, t, n, c: {'max_time': t, 'max_conn': n, 'conc': c, 'interactive': bool(aconf.conn_rate_test_enabled)}))
    sa.audit = _wrap(sa, 'audit', 'audit', lambda out, aconf, *a, **k: {'host': aconf.host, 'port': aconf.port})
    sa.target_worker_thread = _wrap(sa, 'target_worker_thread', 'worker', lambda host, port, aconf: {'host': host, 'port': port})
    return orig_rate


def install_tables(spec=None):
    import copy
    fp = (spec or {}).get('failpoint')
    import hashlib
    import ssh_audit.ssh_audit as sa
    from ssh_audit.ssh2_kexdb import SSH2_KexDB
    from ssh_audit.ssh1_kexdb import SSH1_KexDB

    def digest(db):
        return hashlib.sha256(json.dumps(db, sort_keys=True).encode()).hexdigest()[:16]
    m2, m1 = digest(SSH2_KexDB.MASTER_DB), digest(SSH1_KexDB.MASTER_DB)
    emit('master-digest', when='start', ssh2=m2, ssh1=m1)
    snapshot = copy.deepcopy(SSH2_KexDB.MASTER_DB)
    inner = sa.audit

    def diff(db):
        out = []
        for cat in db:
            for name in db[cat]:
                if db[cat][name] != snapshot.get(cat, {}).get(name):
                    out.append(cat + ':' + name)
        return out

    def audit(out, aconf, *a, **kw):
        tid = threading.get_ident()
        db = SSH2_KexDB.DB_PER_THREAD.get(tid)
        emit('table-at-entry', host=aconf.host, port=aconf.port, pristine=(db is None or db == snapshot), dirty=diff(db)[:20] if db is not None else [])
        try:
            res = inner(out, aconf, *a, **kw)
            if fp and aconf.port == fp.get('port'):
                # source-free failpoint: the scan of this target ends in an exception after it has run (and annotated the tables), the way an unforeseen error inside the scan would
                emit('failpoint', port=aconf.port, exc=fp.get('exc'))
                if fp.get('exc') == 'SystemExit':
                    raise SystemExit(3)
                raise RuntimeError('injected by the monitor')
            return res
        finally:
            db = SSH2_KexDB.DB_PER_THREAD.get(tid)
            emit('table-at-exit', host=aconf.host, port=aconf.port, dirty=diff(db)[:20] if db is not None else [])
    sa.audit = audit

    def at_exit():
        emit('master-digest', when='exit', ssh2=digest(SSH2_KexDB.MASTER_DB), ssh1=digest(SSH1_KexDB.MASTER_DB), same=(digest(SSH2_KexDB.MASTER_DB) == m2 and digest(SSH1_KexDB.MASTER_DB) == m1))
    atexit.register(at_exit)


def install_resolver(spec):
    """C18 doubles: scripted getaddrinfo + connect redirection (records the requested endpoint)."""
    import socket
    answers = spec.get('answers', {})       # host -> [[family(4|6), addr], ...]
    redirect = spec.get('redirect')          # [host, port] of the local peer (v4) / redirect6
    redirect6 = spec.get('redirect6')
    real_gai = socket.getaddrinfo

    def fake_gai(host, port, family=0, type=0, proto=0, flags=0):
        h = host.decode() if isinstance(host, bytes) else host
        emit('resolve', host=h, port=port, family=int(family))
        if h not in answers:
            emit('resolve-unknown', host=h)
            raise socket.gaierror(socket.EAI_NONAME, 'Name or service not known')
        res = []
        for fam, addr in answers[h]:
            if fam == 4 and family in (0, socket.AF_INET):
                res.append((socket.AF_INET, socket.SOCK_STREAM, 6, '', (addr, port)))
            elif fam == 6 and family in (0, socket.AF_INET6):
                res.append((socket.AF_INET6, socket.SOCK_STREAM, 6, '', (addr, port, 0, 0)))
        if not res:
            raise socket.gaierror(socket.EAI_NONAME, 'Name or service not known')
        emit('resolve-answer', host=h, res=[[int(r[0]), r[4][0]] for r in res])
        return res
    socket.getaddrinfo = fake_gai
    base = socket.socket

    class RedirSocket(base):
        def _map(self, addr):
            emit('want-connect', family=int(self.family), addr=list(addr[:2]))
            fail = spec.get('fail_addrs', [])
            if addr[0] in fail:
                return None
            if self.family == socket.AF_INET6:
                return tuple(redirect6) + (0, 0) if redirect6 else None
            return tuple(redirect) if redirect else None

        def connect(self, addr):
            m = self._map(addr)
            if m is None:
                raise ConnectionRefusedError(111, 'Connection refused')
            return super().connect(m)

        def connect_ex(self, addr):
            m = self._map(addr)
            if m is None:
                return 111
            return super().connect_ex(m)
    socket.socket = RedirSocket
    return real_gai


def main():
    global _log_fh
    log_path, spec_json = sys.argv[1], sys.argv[2]
    assert sys.argv[3] == '--'
    args = sys.argv[4:]
    spec = json.loads(spec_json)
    _log_fh = open(log_path, 'w', buffering=1)
    sys.path.insert(0, os.path.join(REPO, 'src'))
    mons = spec.get('monitors', [])

    def fin():
        import resource
        ru = resource.getrusage(resource.RUSAGE_SELF)
        emit('exit', cpu=ru.ru_utime + ru.ru_stime, counts=dict(_counts), events=_n_events, threads=threading.active_count())
        try:
            _log_fh.flush()
        except Exception:
            pass
    atexit.register(fin)  # registered first, so it runs last
    if 'resolver' in mons:
        install_resolver(spec.get('resolver', {}))
    if 'sockets' in mons:
        install_sockets()
    if 'audit' in mons:
        install_audit()
    if 'calls' in mons:
        install_calls()
    if 'tables' in mons:
        install_tables(spec)
    if 'switch' in mons:
        sys.setswitchinterval(1e-6)

    sys.argv = [CLI] + args
    runpy.run_path(CLI, run_name='__main__')


if __name__ == '__main__':
    main()
