"""Run one invocation of the real CLI (optionally under the monitor launcher) with a watchdog."""
import json
import os
import shutil
import subprocess
import tempfile
import threading
import time

REPO = os.environ.get('VERIF_REPO', '/repo')
PY = os.environ.get('VERIF_PY', '/venv/bin/python')
CLI = os.path.join(REPO, 'ssh-audit.py')
HERE = os.path.dirname(os.path.abspath(__file__))
LAUNCH = os.path.join(HERE, 'launch.py')
SCRATCH_ROOT = os.environ.get('VERIF_SCRATCH', '/var/tmp/ssh-audit-verif')


class Run:
    __slots__ = ('args', 'status', 'out', 'err', 'wall', 'cpu', 'timed_out', 'monitor', 'signal')

    def brief(self, n=1500):
        return {'args': self.args, 'status': self.status, 'timed_out': self.timed_out, 'wall': round(self.wall, 3), 'cpu': round(self.cpu, 3),
                'stdout': self.out[-n:] if len(self.out) > n else self.out, 'stderr': self.err[-600:]}

    def mon(self, kind):
        return [e for e in (self.monitor or []) if e.get('k') == kind]


def scratch_dir(tag=''):
    os.makedirs(SCRATCH_ROOT, exist_ok=True)
    return tempfile.mkdtemp(prefix='c%s-' % tag, dir=SCRATCH_ROOT)


def cleanup(path):
    shutil.rmtree(path, ignore_errors=True)


def run_cli(args, timeout=60.0, monitors=None, spec=None, cwd=None, hashseed='0', env_extra=None, stdin=None, color=True):
    """args: CLI arguments after the script name.  monitors: list of launcher monitor names (None: plain CLI)."""
    own = cwd is None
    if own:
        cwd = scratch_dir('run')
    env = {'PATH': '/usr/bin:/bin', 'HOME': cwd, 'PYTHONHASHSEED': str(hashseed), 'PYTHONDONTWRITEBYTECODE': '1', 'LANG': 'C.UTF-8', 'PYTHONIOENCODING': 'utf-8', 'VERIF_REPO': REPO}
    if not color:
        env['NO_COLOR'] = '1'
    if env_extra:
        env.update(env_extra)
    logp = None
    if monitors is not None:
        logp = os.path.join(cwd, 'monitor-%d-%d.jsonl' % (os.getpid(), threading.get_ident()))
        sp = dict(spec or {})
        sp['monitors'] = monitors
        cmd = [PY, LAUNCH, logp, json.dumps(sp), '--'] + list(args)
    else:
        cmd = [PY, CLI] + list(args)
    outp = os.path.join(cwd, 'stdout-%d-%d' % (os.getpid(), threading.get_ident()))
    errp = os.path.join(cwd, 'stderr-%d-%d' % (os.getpid(), threading.get_ident()))
    r = Run()
    r.args = list(args)
    t0 = time.monotonic()
    with open(outp, 'wb') as fo, open(errp, 'wb') as fe:
        proc = subprocess.Popen(cmd, stdout=fo, stderr=fe, stdin=subprocess.DEVNULL if stdin is None else stdin, cwd=cwd, env=env, start_new_session=True)
    killed = [False]

    def kill():
        killed[0] = True
        try:
            os.killpg(proc.pid, 9)
        except OSError:
            pass
    timer = threading.Timer(timeout, kill)
    timer.daemon = True
    timer.start()
    try:
        _pid, st, ru = os.wait4(proc.pid, 0)
    finally:
        timer.cancel()
    proc.returncode = os.waitstatus_to_exitcode(st)
    r.wall = time.monotonic() - t0
    r.cpu = ru.ru_utime + ru.ru_stime
    r.timed_out = killed[0]
    r.status = proc.returncode
    r.signal = -proc.returncode if proc.returncode < 0 else 0
    with open(outp, 'rb') as f:
        r.out = f.read().decode('utf-8', 'replace')
    with open(errp, 'rb') as f:
        r.err = f.read().decode('utf-8', 'replace')
    r.monitor = None
    if logp is not None:
        r.monitor = []
        try:
            with open(logp) as f:
                for line in f:
                    try:
                        r.monitor.append(json.loads(line))
                    except ValueError:
                        pass
        except OSError:
            pass
    for p in (outp, errp, logp):
        if p:
            try:
                os.unlink(p)
            except OSError:
                pass
    if own:
        cleanup(cwd)
    return r
