"""Independent SSH wire codec used by the scripted peers and by the oracles.

Written from RFC 4251 / RFC 4253 / RFC 4419 / PROTOCOL.certkeys and the SSH-1.5 draft, not
from the code under test.  Nothing in here imports ssh_audit.
"""
import hashlib
import struct
import zlib

MSG_DISCONNECT = 1
MSG_IGNORE = 2
MSG_DEBUG = 4
MSG_KEXINIT = 20
MSG_NEWKEYS = 21
MSG_KEXDH_INIT = 30
MSG_KEXDH_REPLY = 31
MSG_GEX_GROUP = 31
MSG_GEX_INIT = 32
MSG_GEX_REPLY = 33
MSG_GEX_REQUEST = 34
SSH1_SMSG_PUBLIC_KEY = 2

SSH1_CIPHERS = ['none', 'idea', 'des', '3des', 'tss', 'rc4', 'blowfish']
SSH1_AUTHS = [None, 'rhosts', 'rsa', 'password', 'rhosts_rsa', 'tis', 'kerberos']


class WireError(Exception):
    pass


def nb(name):
    """A name as carried in a case spec (str, possibly with surrogate escapes) -> bytes."""
    if isinstance(name, bytes):
        return name
    return name.encode('utf-8', 'surrogateescape')


def shown(name):
    """How a report can show a name: UTF-8 decode with U+FFFD replacement."""
    return nb(name).decode('utf-8', 'replace')


def u32(n):
    return struct.pack('>I', n & 0xffffffff)


def u64(n):
    return struct.pack('>Q', n)


def string(b):
    b = nb(b)
    return u32(len(b)) + b


def namelist(names):
    return string(b','.join(nb(n) for n in names))


def mpint(n):
    """RFC 4251 section 5: two's complement, big endian, minimal length."""
    if n == 0:
        return u32(0)
    if n > 0:
        ln = n.bit_length() // 8 + 1
        b = n.to_bytes(ln, 'big', signed=True)
    else:
        ln = (n + 1).bit_length() // 8 + 1
        b = n.to_bytes(ln, 'big', signed=True)
    # minimal: strip redundant sign bytes
    while len(b) > 1 and ((b[0] == 0 and b[1] < 0x80) or (b[0] == 0xff and b[1] >= 0x80)):
        b = b[1:]
    return u32(len(b)) + b


def mpint_decode(buf, off=0):
    (ln,) = struct.unpack_from('>I', buf, off)
    raw = buf[off + 4: off + 4 + ln]
    if len(raw) != ln:
        raise WireError('short mpint')
    return int.from_bytes(raw, 'big', signed=True) if ln else 0, off + 4 + ln


def mpint1(n):
    """SSH-1 multiple precision integer: 16 bit bit-count, then magnitude (non-negative only)."""
    if n < 0:
        raise WireError('ssh1 mpint has no sign')
    bits = n.bit_length()
    return struct.pack('>H', bits) + n.to_bytes((bits + 7) // 8, 'big')


def mpint1_decode(buf, off=0):
    (bits,) = struct.unpack_from('>H', buf, off)
    ln = (bits + 7) // 8
    raw = buf[off + 2: off + 2 + ln]
    if len(raw) != ln:
        raise WireError('short mpint1')
    return int.from_bytes(raw, 'big'), off + 2 + ln


# ---------------------------------------------------------------------------------- SSH-2 packets

def packet(payload, pad=None, block=8):
    """RFC 4253 section 6 binary packet without MAC."""
    if pad is None:
        pad = -(len(payload) + 5) % block
        if pad < 4:
            pad += block
    return u32(len(payload) + pad + 1) + bytes([pad]) + payload + b'\x00' * pad


def frame_verdict(buf, block=8, allow_empty=False):
    """Strict RFC 4253 s6 check of exactly one packet at the start of buf.

    Returns (ok, reason, total_len, payload)."""
    if len(buf) < 5:
        return False, 'short-header', 0, b''
    (plen,) = struct.unpack_from('>I', buf, 0)
    pad = buf[4]
    total = plen + 4
    if plen > 35000 * 8:
        return False, 'length-too-large', total, b''
    if total % block != 0 or total < 16:
        return False, 'block-size', total, b''
    if pad < 4:
        return False, 'padding<4', total, b''
    if plen - pad - 1 < (0 if allow_empty else 1):
        return False, 'no-payload', total, b''
    if len(buf) < total:
        return False, 'incomplete', total, b''
    return True, 'ok', total, buf[5:5 + plen - pad - 1]


def split_packets(buf):
    """Split a byte stream into packets; yields (ok, reason, raw, payload); stops at first bad one."""
    out = []
    off = 0
    while off < len(buf):
        ok, why, total, payload = frame_verdict(buf[off:])
        if not ok:
            out.append((False, why, buf[off:], b''))
            break
        out.append((True, 'ok', buf[off:off + total], payload))
        off += total
    return out


KEX_FIELDS = ['kex', 'key', 'enc_cs', 'enc_sc', 'mac_cs', 'mac_sc', 'comp_cs', 'comp_sc', 'lang_cs', 'lang_sc']


def kexinit_payload(k, field_offsets=None):
    """k: dict with the ten KEX_FIELDS (lists of names), optional cookie(hex), follows, reserved.

    If field_offsets is a dict it receives {field: offset of its u32 length inside the payload}."""
    cookie = bytes.fromhex(k.get('cookie', '00' * 16))
    out = bytes([MSG_KEXINIT]) + cookie
    for f in KEX_FIELDS:
        if field_offsets is not None:
            field_offsets[f] = len(out)
        out += namelist(k.get(f, []))
    out += bytes([1 if k.get('follows') else 0]) + u32(k.get('reserved', 0))
    return out


def parse_kexinit(payload):
    """Strict decoder.  Returns dict of KEX_FIELDS -> list of bytes names.  Raises WireError."""
    if len(payload) < 17 or payload[0] != MSG_KEXINIT:
        raise WireError('not a KEXINIT')
    off = 17
    res = {}
    for f in KEX_FIELDS:
        if off + 4 > len(payload):
            raise WireError('truncated before %s' % f)
        (ln,) = struct.unpack_from('>I', payload, off)
        off += 4
        if ln > len(payload) - off:
            raise WireError('name-list %s overruns payload' % f)
        raw = payload[off:off + ln]
        off += ln
        res[f] = raw.split(b',') if ln else []
    if len(payload) - off != 5:
        raise WireError('trailer is %d bytes, expected 5' % (len(payload) - off))
    res['follows'] = payload[off] != 0
    res['reserved'] = struct.unpack_from('>I', payload, off + 1)[0]
    return res


# ---------------------------------------------------------------------------------- key blobs

def det_int(bits, tag=b''):
    """Deterministic odd integer of exactly `bits` bits (not prime; nobody checks)."""
    if bits < 2:
        return 1
    need = (bits + 7) // 8
    stream = b''
    ctr = 0
    while len(stream) < need:
        stream += hashlib.sha256(b'det%d:%d:' % (bits, ctr) + tag).digest()
        ctr += 1
    n = int.from_bytes(stream[:need], 'big')
    n &= (1 << bits) - 1
    n |= (1 << (bits - 1)) | 1
    return n


def rsa_blob(bits, e=65537, tag=b'', name=b'ssh-rsa'):
    return string(name) + mpint(e) + mpint(det_int(bits, tag))


def ed25519_blob(tag=b''):
    return string(b'ssh-ed25519') + string(hashlib.sha256(b'ed25519' + tag).digest())


def ed448_blob(tag=b''):
    return string(b'ssh-ed448') + string(hashlib.sha512(b'ed448' + tag).digest()[:57])


ECDSA_LEN = {256: 32, 384: 48, 521: 66}


def ecdsa_blob(curve=256, tag=b'', compressed=False):
    ln = ECDSA_LEN[curve]
    q = b'\x04' + (hashlib.sha512(b'ecx%d' % curve + tag).digest() * 2)[:ln] + (hashlib.sha512(b'ecy%d' % curve + tag).digest() * 2)[:ln]
    if compressed:
        # SEC1 2.3.3 compressed form (RFC 5656 section 3.1: point compression MAY be used): 0x02/0x03 and the X coordinate only
        q = bytes([2 + (q[-1] & 1)]) + q[1:1 + ln]
    return string(b'ecdsa-sha2-nistp%d' % curve) + string(b'nistp%d' % curve) + string(q)


def dss_blob(bits=1024, tag=b''):
    return string(b'ssh-dss') + mpint(det_int(bits, tag + b'p')) + mpint(det_int(160, tag + b'q')) + mpint(det_int(bits - 1, tag + b'g')) + mpint(det_int(bits - 1, tag + b'y'))


def key_blob(spec, tag=b''):
    """spec: {'type': 'rsa'|'ed25519'|'ed448'|'ecdsa'|'dss'|'rsa-cert'|'ed25519-cert', 'bits':..,
    'ca': {...}, 'cert_type': 2}"""
    t = spec['type']
    tag = tag + spec.get('tag', '').encode()
    if t == 'rsa':
        return rsa_blob(spec['bits'], tag=tag)
    if t == 'ed25519':
        return ed25519_blob(tag)
    if t == 'ed448':
        return ed448_blob(tag)
    if t == 'ecdsa':
        return ecdsa_blob(spec.get('bits', 256), tag, compressed=bool(spec.get('compressed')))
    if t == 'dss':
        return dss_blob(spec.get('bits', 1024), tag)
    if t in ('rsa-cert', 'ed25519-cert'):
        return cert_blob(spec, tag)
    if t == 'raw':
        return bytes.fromhex(spec['hex'])
    raise WireError('unknown key spec %r' % (spec,))


def cert_blob(spec, tag=b''):
    """PROTOCOL.certkeys host certificate.  The signature is not valid (nobody verifies it)."""
    nonce = hashlib.sha256(b'nonce' + tag).digest()
    ca = key_blob(spec['ca'], tag + b'ca')
    if spec['type'] == 'rsa-cert':
        out = string(b'ssh-rsa-cert-v01@openssh.com') + string(nonce) + mpint(65537) + mpint(det_int(spec['bits'], tag))
    else:
        pk = hashlib.sha256(b'ed25519' + tag).digest()
        z = spec.get('pubkey_zero', 0)   # a public key whose encoding starts with zero bytes (about one real key in 256 starts with one)
        out = string(b'ssh-ed25519-cert-v01@openssh.com') + string(nonce) + string(b'\x00' * z + pk[z:])
    out += u64(spec.get('serial', 1)) + u32(spec.get('cert_type', 2)) + string(spec.get('key_id', 'host-key-id'))
    principals = spec['principals'] if 'principals' in spec else [spec.get('principal', 'host.example')]
    out += string(b''.join(string(x) for x in principals))
    out += u64(spec.get('valid_after', 0)) + u64(spec.get('valid_before', 0xffffffffffffffff))
    out += string(bytes.fromhex(spec.get('critical_options_hex', ''))) + string(bytes.fromhex(spec.get('extensions_hex', ''))) + string(b'')
    out += string(ca)
    out += string(string(b'ssh-ed25519') + string(b'\x55' * 64))
    return out


def blob_facts(blob):
    """Ground truth about a public key blob, by an independent parse: dict(type, bits, ca_type, ca_bits)."""
    def gs(b, o):
        (ln,) = struct.unpack_from('>I', b, o)
        if o + 4 + ln > len(b):
            raise WireError('overrun')
        return b[o + 4:o + 4 + ln], o + 4 + ln

    def plain(b, o, t):
        if t == b'ssh-rsa':
            e, o = gs(b, o)
            n, o = gs(b, o)
            return int.from_bytes(n, 'big', signed=True).bit_length(), o
        if t == b'ssh-ed25519':
            pk, o = gs(b, o)
            return 256, o
        if t == b'ssh-ed448':
            pk, o = gs(b, o)
            return 448 if len(pk) == 57 else len(pk) * 8, o
        if t.startswith(b'ecdsa-sha2-'):
            c, o = gs(b, o)
            q, o = gs(b, o)
            return {b'nistp256': 256, b'nistp384': 384, b'nistp521': 521}.get(c, (len(q) - 1) * 4), o
        if t == b'ssh-dss':
            p, o = gs(b, o)
            return int.from_bytes(p, 'big', signed=True).bit_length(), o
        raise WireError('unknown type %r' % t)

    t, o = gs(blob, 0)
    res = {'type': t.decode('ascii', 'replace'), 'bits': 0, 'ca_type': '', 'ca_bits': 0}
    if b'-cert-v0' in t:
        nonce, o = gs(blob, o)
        base = t.split(b'-cert-')[0]
        res['bits'], o = plain(blob, o, base)
        o += 12
        for _ in range(2):
            _x, o = gs(blob, o)
        o += 16
        for _ in range(3):
            _x, o = gs(blob, o)
        ca, o = gs(blob, o)
        ct, co = gs(ca, 0)
        res['ca_type'] = ct.decode('ascii', 'replace')
        res['ca_bits'], _ = plain(ca, co, ct)
    else:
        res['bits'], _ = plain(blob, o, t)
    return res


def fingerprints(blob):
    import base64
    sha = 'SHA256:' + base64.b64encode(hashlib.sha256(blob).digest()).decode().rstrip('=')
    h = hashlib.md5(blob).hexdigest()
    md5 = 'MD5:' + ':'.join(h[i:i + 2] for i in range(0, 32, 2))
    return sha, md5


def kex_reply(msg_type, hostkey_blob, second=b'\x00' * 32, sig=None):
    if sig is None:
        sig = string(b'ssh-ed25519') + string(b'\x11' * 64)
    return bytes([msg_type]) + string(hostkey_blob) + string(second) + string(sig)


def gex_group(p, g=2):
    return bytes([MSG_GEX_GROUP]) + mpint(p) + mpint(g)


# ---------------------------------------------------------------------------------- SSH-1

def ssh1_crc32(data):
    """SSH-1 CRC: polynomial 0xEDB88320, initial value 0, no final xor (bitwise reference)."""
    crc = 0
    for byte in data:
        crc ^= byte
        for _ in range(8):
            crc = (crc >> 1) ^ 0xEDB88320 if crc & 1 else crc >> 1
    return crc


def ssh1_crc32_fast(data):
    return (zlib.crc32(data, 0xffffffff) ^ 0xffffffff) & 0xffffffff


def ssh1_packet(ptype, data, bad_crc=False, random_pad=False):
    body = bytes([ptype]) + data
    length = len(body) + 4
    padlen = 8 - length % 8
    pad = b'\x00' * padlen
    if random_pad:
        # protocol 1.5: "padding: random data" - what real servers send once encryption is on; zeros are only what OpenSSH sends before
        pad = bytes(b | 1 for b in hashlib.sha256(b'pad' + body).digest()[:padlen])
    crc = ssh1_crc32_fast(pad + body)
    if bad_crc:
        crc ^= 0x1
    return u32(length) + pad + body + u32(crc)


def ssh1_pkm(cmask, amask, host_bits=2048, server_bits=768, flags=2, cookie=b'\x01' * 8, offsets=None):
    out = cookie + u32(server_bits) + mpint1(65537) + mpint1(det_int(server_bits, b's1'))
    out += u32(host_bits) + mpint1(65537) + mpint1(det_int(host_bits, b'h1'))
    out += u32(flags) + u32(cmask) + u32(amask)
    return out


def ssh1_names(cmask, amask):
    c = [SSH1_CIPHERS[i] for i in range(len(SSH1_CIPHERS)) if cmask & (1 << i)]
    a = [SSH1_AUTHS[i] for i in range(1, len(SSH1_AUTHS)) if amask & (1 << i)]
    return c, a


def selftest():
    assert mpint(0) == b'\0\0\0\0'
    assert mpint(0x9a378f9b2e332a7) == bytes.fromhex('0000000809a378f9b2e332a7')
    assert mpint(0x80) == bytes.fromhex('000000020080')
    assert mpint(-0x1234) == bytes.fromhex('00000002edcc')
    assert mpint(-0xdeadbeef) == bytes.fromhex('00000005ff21524111')
    for n in list(range(-70000, 70000, 37)) + [1 << 64, -(1 << 64), (1 << 64) - 1, -(1 << 63), -(1 << 63) - 1]:
        v, o = mpint_decode(mpint(n))
        assert v == n, n
    assert namelist(['zlib', 'none']) == bytes.fromhex('000000097a6c69622c6e6f6e65')
    for ln in range(0, 64):
        p = packet(b'\x14' + b'x' * ln)
        ok, why, total, payload = frame_verdict(p)
        assert ok and total == len(p) and payload == b'\x14' + b'x' * ln, (ln, why)
    for data in (b'', b'a', b'hello world', bytes(range(256))):
        assert ssh1_crc32(data) == ssh1_crc32_fast(data)
    k = {f: ['a', 'b'] for f in KEX_FIELDS}
    assert parse_kexinit(kexinit_payload(k))['kex'] == [b'a', b'b']
    f = blob_facts(key_blob({'type': 'rsa-cert', 'bits': 3072, 'ca': {'type': 'rsa', 'bits': 4096}}))
    assert f == {'type': 'ssh-rsa-cert-v01@openssh.com', 'bits': 3072, 'ca_type': 'ssh-rsa', 'ca_bits': 4096}, f
    f = blob_facts(key_blob({'type': 'ed25519-cert', 'ca': {'type': 'ecdsa', 'bits': 384}}))
    assert f['bits'] == 256 and f['ca_bits'] == 384 and f['ca_type'] == 'ecdsa-sha2-nistp384', f
    return True


if __name__ == '__main__':
    print('wire selftest', selftest())


# ---------------------------------------------------------------------------------- field maps for fault enumeration

def _walk_strings(buf, off, end, depth, out, base):
    """Record offsets of consecutive u32-length-prefixed strings in buf[off:end]; recurse into ones that look structured."""
    n = 0
    while off + 4 <= end and n < 40:
        (ln,) = struct.unpack_from('>I', buf, off)
        if off + 4 + ln > end:
            break
        out.append(base + off)
        if depth > 0 and ln >= 8:
            (inner,) = struct.unpack_from('>I', buf, off + 4)
            if 0 < inner <= ln - 4 and inner < 64:
                _walk_strings(buf, off + 4, off + 4 + ln, depth - 1, out, base)
        off += 4 + ln
        n += 1
    return off


def length_fields(label, pkt):
    """Offsets (into the framed packet) of every addressable length field of a message the peer sends.
    Returns list of (offset, width, name)."""
    res = []
    if label in ('kexinit', 'kexreply', 'gexgroup', 'gexreply'):
        res.append((0, 4, 'packet_length'))
        res.append((4, 1, 'padding_length'))
        (plen,) = struct.unpack_from('>I', pkt, 0)
        pad = pkt[4]
        pstart, pend = 5, 5 + plen - pad - 1
        if label == 'kexinit':
            off = pstart + 17
            for f in KEX_FIELDS:
                res.append((off, 4, 'namelist:' + f))
                (ln,) = struct.unpack_from('>I', pkt, off)
                off += 4 + ln
        else:
            offs = []
            _walk_strings(pkt, pstart + 1, pend, 2, offs, 0)
            for i, o in enumerate(offs):
                res.append((o, 4, 'string#%d' % i))
    elif label == 'pkm':
        res.append((0, 4, 'ssh1_length'))
        (ln,) = struct.unpack_from('>I', pkt, 0)
        padlen = 8 - ln % 8
        b = 4 + padlen + 1 + 8
        res.append((b, 4, 'server_key_bits'))
        o = b + 4
        for name in ('server_e', 'server_n'):
            res.append((o, 2, 'mpint1:' + name))
            (bits,) = struct.unpack_from('>H', pkt, o)
            o += 2 + (bits + 7) // 8
        res.append((o, 4, 'host_key_bits'))
        o += 4
        for name in ('host_e', 'host_n'):
            res.append((o, 2, 'mpint1:' + name))
            (bits,) = struct.unpack_from('>H', pkt, o)
            o += 2 + (bits + 7) // 8
    return res
