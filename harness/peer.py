"""Scripted SSH peers on real loopback TCP.  The peer is the boundary monitor: it knows exactly what
it put on the wire and records everything the tool does to it (connections, packets, closes).

A script is a JSON-able dict (see DESIGN.md 2.1):
  banner      str   identification line without line ending (surrogateescape carries raw bytes)
  pre         [str] lines sent before the banner
  eol         str   line ending (default CRLF)
  proto       2 | 1 (SSH-1 only server: answers SSH-2 clients with 'Protocol major versions differ.')
  kex         dict  the ten name lists (wire.KEX_FIELDS) + cookie/follows/reserved
  hostkeys    {name: keyspec}  what is presented when the tool asks for host key type `name`
  hostkey_default keyspec|None used when the requested type has no entry (None: close)
  gex         {'sizes': [...], 'style': 'strict'|'roundup'|'openssh'|'largest'} | None (refuse)
  ssh1        {'cmask','amask','host_bits','server_bits'}
  faults      [{'conn': n|'*'|'probe', 'at': label, 'nth': k, 'req': [min, pref, max] (only the answer to that GEX_REQUEST), 'op': ..., ...}]
  gate        {'conn': n|'*', 'at': label}  block before that message until Peer.gate is set
  linger      seconds to keep an idle connection open at most (default 12)
"""
import random
import select
import socket
import struct
import threading
import time

from . import wire

LABELS = ('banner', 'kexinit', 'kexreply', 'gexgroup', 'gexreply', 'pkm', 'vdiff')


def moduli_answer(gex, mn, pref, mx):
    """What modulus size a server with moduli policy `gex` hands out for a request, or None (refuses)."""
    if gex is None:
        return None
    sizes = sorted(gex.get('sizes', []))
    style = gex.get('style', 'strict')
    if mn > mx or not sizes:
        return None
    inrange = [s for s in sizes if mn <= s <= mx]
    if style == 'strict':
        # smallest available size >= preferred inside [min,max], else the largest inside the range
        if not inrange:
            return None
        up = [s for s in inrange if s >= pref]
        return up[0] if up else inrange[-1]
    if style == 'roundup':
        # ignores max: the smallest size >= min (what some embedded servers do)
        up = [s for s in sizes if s >= max(mn, pref)] or [s for s in sizes if s >= mn]
        return up[0] if up else None
    if style == 'openssh':
        # OpenSSH: choose from the moduli file inside [min,max]; if none matches fall back to the
        # built-in 2048-bit group (dh.c fallback) regardless of the request
        if inrange:
            up = [s for s in inrange if s >= pref]
            return up[0] if up else inrange[-1]
        return 2048
    if style == 'exact':
        # only a group of exactly the preferred size (inside the range) is handed out
        return pref if pref in inrange else None
    if style == 'roundup-max':
        # the smallest size between preferred and max, else refuse
        up = [x for x in sizes if pref <= x <= mx]
        return up[0] if up else None
    if style == 'largest':
        return inrange[-1] if inrange else None
    raise ValueError(style)


class Conn:
    def __init__(self, idx, sock, addr):
        self.idx = idx
        self.sock = sock
        self.addr = addr
        self.rx = b''           # everything received on this connection
        self.rxbuf = b''        # not yet consumed
        self.tx = b''           # everything actually written
        self.sent_labels = {}
        self.closed = None      # 'eof' | 'reset' | 'peer-closed' | 'timeout'
        self.client_banner = None
        self.client_kex = None
        self.packets = []       # (type, payload, frame_ok, reason)
        self.eof_seen = False


class _Abort(Exception):
    pass


class PeerBase:
    def __init__(self, script):
        self.script = script
        self.lock = threading.Lock()
        self.events = []
        self.conns = []
        self.t0 = time.monotonic()
        self.gate = threading.Event()
        self.stopping = False
        self.linger = script.get('linger', 12)
        self.threads = []

    # -------------------------------------------------------------------------------- logging
    def log(self, kind, conn=None, **kw):
        ev = {'t': round(time.monotonic() - self.t0, 4), 'kind': kind}
        if conn is not None:
            ev['conn'] = conn
        ev.update(kw)
        with self.lock:
            self.events.append(ev)

    def count(self, kind):
        with self.lock:
            return sum(1 for e in self.events if e['kind'] == kind)

    # -------------------------------------------------------------------------------- sending
    def _faults_for(self, c, label):
        nth = c.sent_labels.get(label, 0)
        res = []
        for f in self.script.get('faults', []):
            if f.get('at') != label:
                continue
            fc = f.get('conn', '*')
            if not (fc == '*' or fc == c.idx or (fc == 'probe' and c.idx >= 1) or (isinstance(fc, list) and c.idx in fc) or (isinstance(fc, dict) and c.idx >= fc.get('ge', 0) and c.idx <= fc.get('le', 1 << 30))):
                continue
            if 'nth' in f and f['nth'] != nth:
                continue
            if 'req' in f and list(f['req']) != list(getattr(c, 'last_gex', None) or ()):
                continue
            res.append(f)
        return res

    def _stall(self, c, secs=None):
        """Say nothing until the other side closes (or linger expires)."""
        self.log('stall', c.idx)
        end = time.monotonic() + (secs if secs is not None else self.linger)
        while time.monotonic() < end and not self.stopping:
            try:
                r, _, _ = select.select([c.sock], [], [], 0.25)
                if r:
                    d = c.sock.recv(65536)
                    if not d:
                        c.eof_seen = True
                        self.log('eof', c.idx)
                        break
                    c.rx += d
            except OSError:
                c.eof_seen = True
                self.log('reset', c.idx)
                break
        raise _Abort()

    def _raw_send(self, c, data, segment=0, delay=0.0):
        try:
            if segment and segment > 0:
                c.sock.setsockopt(socket.IPPROTO_TCP, socket.TCP_NODELAY, 1)
                for i in range(0, len(data), segment):
                    c.sock.sendall(data[i:i + segment])
                    c.tx += data[i:i + segment]
                    if delay:
                        time.sleep(delay)
            else:
                c.sock.sendall(data)
                c.tx += data
        except OSError as e:
            self.log('send-error', c.idx, err=str(e))
            raise _Abort()

    def send(self, c, label, data):
        g = self.script.get('gate')
        if g and g.get('at') == label and (g.get('conn', '*') in ('*', c.idx)):
            self.log('gate-wait', c.idx)
            self.gate.wait(60)
            self.log('gate-open', c.idx)
        faults = self._faults_for(c, label)
        c.sent_labels[label] = c.sent_labels.get(label, 0) + 1
        segment, delay = self.script.get('segment', 0), self.script.get('segment_delay', 0.0)
        then = None
        for f in faults:
            op = f['op']
            self.log('fault', c.idx, at=label, op=op)
            if op == 'close_before':
                raise _Abort()
            elif op == 'reset_before':
                # abortive close: the other side sees a TCP reset instead of an orderly end
                c.reset = True
                raise _Abort()
            elif op == 'urgent_reset_before':
                # one byte of TCP urgent data, then an abortive close: the other side's socket is readable, exceptional and reset at once
                try:
                    c.sock.send(b'!', socket.MSG_OOB)
                except OSError:
                    pass
                c.reset = True
                raise _Abort()
            elif op == 'stall_before':
                self._stall(c)
            elif op == 'delay':
                time.sleep(f.get('secs', 0.3))
            elif op == 'truncate':
                data = data[:f['offset']]
                then = f.get('then', 'close')
            elif op == 'patch':
                b = bytes.fromhex(f['hex'])
                o = f['offset']
                data = data[:o] + b + data[o + len(b):]
            elif op == 'replace':
                data = bytes.fromhex(f['hex'])
            elif op == 'random':
                data = random.Random(f.get('seed', 0)).randbytes(len(data) if 'len' not in f else f['len'])
            elif op == 'dup':
                data = data + data
            elif op == 'prefix':
                data = bytes.fromhex(f['hex']) + data
            elif op == 'suffix':
                data = data + bytes.fromhex(f['hex'])
            elif op == 'segment':
                segment, delay = f.get('n', 1), f.get('delay', 0.0)
            elif op == 'split':
                # two writes with a pause in between
                o = f['offset']
                self._raw_send(c, data[:o])
                time.sleep(f.get('pause', 0.15))
                data = data[o:]
            elif op == 'then_close':
                then = 'close'
            elif op == 'then_reset':
                then = 'reset'
                c.reset_pause = f.get('pause', 0.0)
            elif op == 'then_stall':
                then = 'stall'
            else:
                raise ValueError('unknown fault op %r' % op)
        self._raw_send(c, data, segment, delay)
        self.log('sent', c.idx, msg=label, n=len(data))
        if then == 'reset':
            time.sleep(getattr(c, 'reset_pause', 0.0))
            c.reset = True
            raise _Abort()
        if then == 'close':
            raise _Abort()
        if then == 'stall':
            self._stall(c)

    # -------------------------------------------------------------------------------- receiving
    def _fill(self, c, timeout):
        try:
            r, _, _ = select.select([c.sock], [], [], timeout)
            if not r:
                return 'timeout'
            d = c.sock.recv(65536)
        except OSError:
            c.eof_seen = True
            self.log('reset', c.idx)
            return 'reset'
        if not d:
            c.eof_seen = True
            self.log('eof', c.idx)
            return 'eof'
        c.rx += d
        c.rxbuf += d
        return None

    def read_line(self, c):
        end = time.monotonic() + self.linger
        while b'\n' not in c.rxbuf:
            if len(c.rxbuf) > 8192:
                raise _Abort()
            left = end - time.monotonic()
            if left <= 0 or self._fill(c, min(left, 0.5)) in ('eof', 'reset'):
                if left <= 0:
                    self.log('idle-timeout', c.idx)
                raise _Abort()
            if self.stopping:
                raise _Abort()
        line, c.rxbuf = c.rxbuf.split(b'\n', 1)
        return line.rstrip(b'\r')

    def read_packet(self, c):
        """Next SSH-2 packet from the tool, strictly framed.  Returns (type, payload) or raises _Abort."""
        end = time.monotonic() + self.linger
        while True:
            ok, why, total, payload = wire.frame_verdict(c.rxbuf)
            if ok:
                c.rxbuf = c.rxbuf[total:]
                c.packets.append((payload[0], payload, True, 'ok'))
                self.log('recv-packet', c.idx, type=payload[0], n=total)
                return payload[0], payload
            if why not in ('short-header', 'incomplete'):
                c.packets.append((None, c.rxbuf, False, why))
                self.log('bad-frame', c.idx, why=why, head=c.rxbuf[:16].hex())
                raise _Abort()
            left = end - time.monotonic()
            if left <= 0:
                self.log('idle-timeout', c.idx)
                raise _Abort()
            if self._fill(c, min(left, 0.5)) in ('eof', 'reset') or self.stopping:
                if c.rxbuf:
                    self.log('partial-at-eof', c.idx, n=len(c.rxbuf))
                raise _Abort()

    # -------------------------------------------------------------------------------- messages
    def banner_blob(self):
        s = self.script
        eol = wire.nb(s.get('eol', '\r\n'))
        out = b''
        for l in s.get('pre', []):
            out += wire.nb(l) + eol
        out += wire.nb(s.get('banner', 'SSH-2.0-OpenSSH_8.9p1')) + eol
        return out

    def kexinit_packet(self):
        pl = wire.kexinit_payload(self.script['kex'])
        pad = self.script.get('kexinit_pad')
        if pad:
            # any padding of 4..255 bytes that makes the total a multiple of 8 is allowed (RFC 4253 section 6); peers that hide message sizes use long ones
            pad = pad + (-(len(pl) + 5 + pad)) % 8
            pad = pad if pad <= 255 else pad - 8
        return wire.packet(pl, pad=pad or None)

    def reply_chatter(self):
        """script['reply_debug'] = N: N SSH_MSG_DEBUG packets (allowed at any time, RFC 4253 section 11.3) in front of every key-exchange reply and group-exchange group."""
        n = self.script.get('reply_debug', 0)
        return b''.join(wire.packet(bytes([wire.MSG_DEBUG]) + b'\x00' + wire.string('debug message %d' % i) + wire.string('')) for i in range(n))

    def hostkey_for(self, name):
        hk = self.script.get('hostkeys', {})
        if name in hk:
            return hk[name]
        return self.script.get('hostkey_default')

    def dialogue(self, c, kexinit_sent=False):
        """Everything after the identification exchange, server side of an SSH-2 key exchange."""
        s = self.script
        if not kexinit_sent:
            self.send(c, 'kexinit', self.kexinit_packet())
        while True:
            t, payload = self.read_packet(c)
            if t == wire.MSG_KEXINIT:
                try:
                    c.client_kex = wire.parse_kexinit(payload)
                    self.log('client-kexinit', c.idx, kex=[x.decode('latin-1') for x in c.client_kex['kex']], key=[x.decode('latin-1') for x in c.client_kex['key']])
                except wire.WireError as e:
                    self.log('client-kexinit-bad', c.idx, why=str(e))
            elif t == wire.MSG_KEXDH_INIT:
                want = c.client_kex['key'][0].decode('latin-1') if c.client_kex and c.client_kex['key'] else ''
                self.log('kexdh-init', c.idx, hostkey=want, n=len(payload))
                spec = self.hostkey_for(want)
                if spec is None:
                    self.log('hostkey-refused', c.idx, hostkey=want)
                    raise _Abort()
                blob = wire.key_blob(spec, b'')
                self.log('hostkey-presented', c.idx, hostkey=want, blob=blob.hex() if len(blob) < 4000 else None, facts=wire.blob_facts(blob) if spec.get('type') != 'raw' else None)
                self.send(c, 'kexreply', self.reply_chatter() + wire.packet(wire.kex_reply(wire.MSG_KEXDH_REPLY, blob)))
            elif t == wire.MSG_GEX_REQUEST:
                if len(payload) != 13:
                    self.log('gex-request-bad', c.idx, n=len(payload))
                    raise _Abort()
                mn, pref, mx = struct.unpack('>III', payload[1:13])
                gexpol = s.get('gex')
                if s.get('gex_by_alg'):
                    # a moduli policy per group-exchange algorithm (the one this connection negotiated)
                    asked = c.client_kex['kex'][0].decode('latin-1') if c.client_kex and c.client_kex['kex'] else ''
                    gexpol = s['gex_by_alg'].get(asked, gexpol)
                ans = moduli_answer(gexpol, mn, pref, mx)
                c.last_gex = (mn, pref, mx)
                self.log('gex-request', c.idx, min=mn, pref=pref, max=mx, answer=ans)
                if ans is None:
                    raise _Abort()
                p = wire.det_int(ans, b'gex')
                if (self.script.get('gex') or {}).get('top_ones'):
                    # like the RFC 2409 / RFC 3526 groups: the leading 64 bits are all ones
                    p |= ((1 << 64) - 1) << (ans - 64)
                self.send(c, 'gexgroup', self.reply_chatter() + wire.packet(wire.gex_group(p)))
            elif t == wire.MSG_GEX_INIT:
                self.log('gex-init', c.idx, n=len(payload))
                want = c.client_kex['key'][0].decode('latin-1') if c.client_kex and c.client_kex['key'] else ''
                spec = self.hostkey_for(want) or {'type': 'ed25519'}
                self.send(c, 'gexreply', self.reply_chatter() + wire.packet(wire.kex_reply(wire.MSG_GEX_REPLY, wire.key_blob(spec, b''))))
            else:
                self.log('other-packet', c.idx, type=t)

    def ssh1_dialogue(self, c):
        p = self.script.get('ssh1', {})
        pkm = wire.ssh1_pkm(p.get('cmask', 0x48), p.get('amask', 0x0c), p.get('host_bits', 2048), p.get('server_bits', 768))
        self.send(c, 'pkm', wire.ssh1_packet(wire.SSH1_SMSG_PUBLIC_KEY, pkm, bad_crc=bool(p.get('bad_crc')), random_pad=bool(p.get('random_pad'))))
        self._drain(c)

    def _drain(self, c):
        end = time.monotonic() + self.linger
        while time.monotonic() < end and not self.stopping:
            if self._fill(c, 0.5) in ('eof', 'reset'):
                return
        self.log('idle-timeout', c.idx)

    def serve(self, c):
        """Server role on an established connection."""
        try:
            eager = bool(self.script.get('eager')) and self.script.get('proto', 2) != 1
            if eager:
                # say everything at once, in one write: the KEXINIT follows the banner without waiting for the other side's identification
                self.send(c, 'kexinit', self.banner_blob() + self.kexinit_packet())
            else:
                self.send(c, 'banner', self.banner_blob())
            line = self.read_line(c)
            c.client_banner = line
            self.log('client-banner', c.idx, line=line.decode('latin-1'))
            proto = self.script.get('proto', 2)
            if line.startswith(b'SSH-1.'):
                if 'ssh1' in self.script:
                    self.ssh1_dialogue(c)
                else:
                    self.send(c, 'vdiff', b'Protocol major versions differ.\n')
                return
            if proto == 1:
                self.send(c, 'vdiff', b'Protocol major versions differ.\n')
                return
            self.dialogue(c, kexinit_sent=eager)
        except _Abort:
            pass
        except Exception as e:  # harness bug: make it visible
            self.log('peer-exception', c.idx, err=repr(e))
        finally:
            self._finish(c)

    def _finish(self, c):
        if getattr(c, 'reset', False):
            try:
                c.sock.setsockopt(socket.SOL_SOCKET, socket.SO_LINGER, struct.pack('ii', 1, 0))
                c.sock.close()
            except OSError:
                pass
            self.log('closed', c.idx, eof_seen=c.eof_seen, rx=len(c.rx), tx=len(c.tx), reset=True)
            return
        # Learn how the other side ended: wait briefly for its EOF unless we already saw it.
        if not c.eof_seen and not self.stopping:
            try:
                c.sock.shutdown(socket.SHUT_WR)
            except OSError:
                pass
            end = time.monotonic() + self.script.get('finish_wait', 3.0)
            while time.monotonic() < end and not c.eof_seen and not self.stopping:
                self._fill(c, 0.25)
        try:
            c.sock.close()
        except OSError:
            pass
        self.log('closed', c.idx, eof_seen=c.eof_seen, rx=len(c.rx), tx=len(c.tx))


class ServerPeer(PeerBase):
    def __init__(self, script, host='127.0.0.1', listen=True):
        super().__init__(script)
        fam = socket.AF_INET6 if ':' in host else socket.AF_INET
        self.lsock = socket.socket(fam, socket.SOCK_STREAM)
        self.lsock.setsockopt(socket.SOL_SOCKET, socket.SO_REUSEADDR, 1)
        self.lsock.bind((host, script.get('port', 0)))
        self.host = host
        self.port = self.lsock.getsockname()[1]
        self.listening = listen
        if listen:
            self.lsock.listen(script.get('backlog', 128))
            t = threading.Thread(target=self._accept_loop, daemon=True)
            t.start()
            self.threads.append(t)

    def _accept_loop(self):
        self.lsock.settimeout(0.25)
        while not self.stopping:
            try:
                s, addr = self.lsock.accept()
            except socket.timeout:
                continue
            except OSError:
                return
            with self.lock:
                c = Conn(len(self.conns), s, addr)
                self.conns.append(c)
            self.log('accept', c.idx)
            t = threading.Thread(target=self.serve, args=(c,), daemon=True)
            t.start()
            self.threads.append(t)

    def stop_listening(self):
        self.listening = False
        try:
            self.lsock.close()
        except OSError:
            pass

    def stop(self, wait=2.0):
        """Let connection threads finish their close bookkeeping, then tear down."""
        end = time.monotonic() + wait
        for t in list(self.threads[1:]):
            t.join(max(0.0, end - time.monotonic()))
        self.stopping = True
        try:
            self.lsock.close()
        except OSError:
            pass
        for c in self.conns:
            try:
                c.sock.close()
            except OSError:
                pass
        for t in self.threads:
            t.join(1.0)

    def target(self):
        return ('[%s]:%d' % (self.host, self.port)) if ':' in self.host else '%s:%d' % (self.host, self.port)

    def open_conns(self):
        with self.lock:
            closed = {e['conn'] for e in self.events if e['kind'] == 'closed'}
            return [c.idx for c in self.conns if c.idx not in closed]


class ClientPeer(PeerBase):
    """Plays an SSH client against the tool's `-c -p PORT` listener."""

    def __init__(self, script, port, host='127.0.0.1'):
        super().__init__(script)
        self.host, self.port = host, port
        self.connected = threading.Event()
        t = threading.Thread(target=self._run, daemon=True)
        self.threads.append(t)
        t.start()

    def _run(self):
        end = time.monotonic() + self.script.get('connect_wait', 15)
        s = None
        fam = socket.AF_INET6 if ':' in self.host else socket.AF_INET
        while time.monotonic() < end and not self.stopping:
            try:
                s = socket.socket(fam, socket.SOCK_STREAM)
                s.connect((self.host, self.port))
                break
            except OSError:
                s.close()
                s = None
                time.sleep(0.03)
        if s is None:
            self.log('connect-failed')
            return
        c = Conn(0, s, (self.host, self.port))
        self.conns.append(c)
        self.log('connected', 0)
        self.connected.set()
        try:
            self.send(c, 'banner', self.banner_blob())
            self.send(c, 'kexinit', self.kexinit_packet())
            line = self.read_line(c)
            c.client_banner = line
            self.log('tool-banner', 0, line=line.decode('latin-1'))
            while True:
                t, payload = self.read_packet(c)
                if t == wire.MSG_KEXINIT:
                    try:
                        c.client_kex = wire.parse_kexinit(payload)
                    except wire.WireError as e:
                        self.log('client-kexinit-bad', 0, why=str(e))
        except _Abort:
            pass
        except Exception as e:
            self.log('peer-exception', 0, err=repr(e))
        finally:
            self._finish(c)

    def stop(self, wait=2.0):
        for t in self.threads:
            t.join(wait)
        self.stopping = True
        for c in self.conns:
            try:
                c.sock.close()
            except OSError:
                pass
