"""Parsers for what the tool prints: text reports (plain / batch / verbose / colour), JSON, policy output."""
import json
import re

ANSI = re.compile(r'\x1b\[([0-9;]*)m')
CATS = ('kex', 'key', 'enc', 'mac', 'aut')
PREFIX = re.compile(r'^\((gen|sec|kex|key|enc|mac|aut|fin|rec|nfo)\) (.*)$', re.S)
CONT = re.compile(r'^\s+`- \[(fail|warn|info)\] (.*)$', re.S)
ALGLINE = re.compile(r'^(\S+)(?: \((\d+)-bit(?: cert/(\d+)-bit (\S+) CA)?\))?(?:\s*-- \[(fail|warn|info)\] (.*))?$', re.S)
COLOR_LEVEL = {'31': 'fail', '33': 'warn', '32': 'good', '36': 'head', '91': 'fail', '93': 'warn', '92': 'good', '96': 'head'}
RANK = {'info': 0, 'good': 0, 'warn': 1, 'fail': 2}


def strip_ansi(s):
    return ANSI.sub('', s)


def line_color(raw):
    """Colour level of a raw output line or None when the line carries no colour."""
    m = ANSI.search(raw)
    if not m:
        return None
    code = m.group(1).split(';')[-1]
    return COLOR_LEVEL.get(code)


class Alg:
    __slots__ = ('cat', 'name', 'bits', 'ca_bits', 'ca_type', 'notes', 'colors', 'lineno')

    def __init__(self, cat, name):
        self.cat, self.name = cat, name
        self.bits = self.ca_bits = None
        self.ca_type = None
        self.notes = []      # [(level, text)]
        self.colors = []     # colour level per note line (None if no colour)
        self.lineno = 0

    def levels(self):
        return sorted({l for l, _ in self.notes}, key=lambda l: RANK[l])

    def worst(self):
        return max([RANK[l] for l, _ in self.notes] or [0])

    def as_dict(self):
        return {'cat': self.cat, 'name': self.name, 'bits': self.bits, 'ca_bits': self.ca_bits, 'ca_type': self.ca_type, 'notes': self.notes}


class Report:
    def __init__(self):
        self.gen = []          # (key, value, colour)
        self.sec = []          # (text, colour)
        self.algs = {c: [] for c in CATS}
        self.fin = []          # (keytype, hash, text)
        self.recs = []         # (sign, name, cat, action, notes, colour)
        self.nfo = []
        self.heads = []
        self.other = []        # unclassified non-empty lines
        self.unknown_warning = None
        self.lines = []        # all stripped lines

    def gen_value(self, key):
        for k, v, _c in self.gen:
            if k == key:
                return v
        return None

    def names(self, cat):
        return [a.name for a in self.algs[cat]]

    def has_alg_lines(self):
        return any(self.algs[c] for c in CATS)

    def findings(self):
        """Set of (cat, name, level, text) over algorithm notes."""
        out = set()
        for c in CATS:
            for a in self.algs[c]:
                for lvl, txt in a.notes:
                    out.add((c, a.name, lvl, txt))
        return out


def parse_text(out, verbose=False):
    """Parse a text report.  verbose=True merges consecutive lines of the same algorithm name."""
    rep = Report()
    cur = None
    for i, raw in enumerate(out.split('\n')):
        col = line_color(raw)
        line = strip_ansi(raw).rstrip('\r')
        rep.lines.append(line)
        if not line.strip():
            continue
        if line.startswith('# '):
            rep.heads.append(line[2:])
            cur = None
            continue
        m = CONT.match(line)
        if m and cur is not None:
            cur.notes.append((m.group(1), m.group(2).rstrip()))
            cur.colors.append(col)
            continue
        m = PREFIX.match(line)
        if not m:
            if line.lstrip().startswith('!!! WARNING: unknown algorithm(s) found!'):
                rep.unknown_warning = line.strip()
            else:
                rep.other.append(line)
            cur = None
            continue
        tag, rest = m.group(1), m.group(2)
        if tag in CATS:
            am = ALGLINE.match(rest.strip())   # (a name the peer wrapped in white space is shown with it; the parsed name is the bare one)
            if not am:
                rep.other.append(line)
                cur = None
                continue
            name = am.group(1)
            if verbose and cur is not None and cur.cat == tag and cur.name == name and am.group(5):
                cur.notes.append((am.group(5), (am.group(6) or '').rstrip()))
                cur.colors.append(col)
                continue
            cur = Alg(tag, name)
            cur.lineno = i
            if am.group(2):
                cur.bits = int(am.group(2))
            if am.group(3):
                cur.ca_bits = int(am.group(3))
                cur.ca_type = am.group(4)
            if am.group(5):
                cur.notes.append((am.group(5), (am.group(6) or '').rstrip()))
                cur.colors.append(col)
            else:
                cur.colors.append(col)
            rep.algs[tag].append(cur)
            continue
        cur = None
        if tag == 'gen':
            k, _, v = rest.partition(':')
            rep.gen.append((k.strip(), v.strip() if _ else '', col))
        elif tag == 'sec':
            rep.sec.append((rest.rstrip(), col))
        elif tag == 'fin':
            fm = re.match(r'^(\S+): (\S+)(?: -- \[info\] (.*))?$', rest.rstrip())
            if fm:
                rep.fin.append((fm.group(1), fm.group(2), fm.group(3)))
            else:
                rep.other.append(line)
        elif tag == 'rec':
            rm = re.match(r'^([-+!])(\S+)\s*-- (\w+) algorithm to (\w+)(?: \((.*)\))?\s*$', rest)
            if rm:
                rep.recs.append((rm.group(1), rm.group(2), rm.group(3), rm.group(4), rm.group(5) or '', col))
            else:
                rep.other.append(line)
        elif tag == 'nfo':
            rep.nfo.append(rest.rstrip())
    return rep


def parse_json(out):
    """json.loads on the whole of stdout; raises ValueError when stdout is not one JSON document."""
    return json.loads(out)


def json_names(doc, cat):
    v = doc.get(cat)
    if v is None:
        return None
    return [e['algorithm'] if isinstance(e, dict) else e for e in v]


def json_findings(doc):
    """Set of (cat, name, level, text) from a standard-audit JSON document (SSH-2 shape)."""
    out = set()
    for c in ('kex', 'key', 'enc', 'mac'):
        for e in doc.get(c) or []:
            if not isinstance(e, dict):
                continue
            for lvl in ('fail', 'warn', 'info'):
                for t in (e.get('notes') or {}).get(lvl, []) or []:
                    out.add((c, e['algorithm'], lvl, t))
    return out


def json_recs(doc):
    """[(sign, name, cat, level)] from the recommendations object."""
    res = []
    rec = doc.get('recommendations') or {}
    for level, acts in rec.items():
        for act, cats in acts.items():
            for cat, lst in cats.items():
                for e in lst:
                    res.append(({'del': '-', 'add': '+', 'chg': '!'}[act], e['name'], cat, level, e.get('notes', '')))
    return res


def split_blocks(out):
    """Blocks of a multi-target text run (80 dashes rule)."""
    sep = '-' * 80
    blocks, cur = [], []
    for line in out.split('\n'):
        if strip_ansi(line) == sep:
            blocks.append('\n'.join(cur))
            cur = []
        else:
            cur.append(line)
    blocks.append('\n'.join(cur))
    return blocks


def parse_policy_text(out):
    txt = strip_ansi(out)
    res = {'host': None, 'policy': None, 'result': None, 'errors': []}
    m = re.search(r'^Host:\s+(.*)$', txt, re.M)
    if m:
        res['host'] = m.group(1).strip()
    m = re.search(r'^Policy:\s+(.*)$', txt, re.M)
    if m:
        res['policy'] = m.group(1).strip()
    m = re.search(r'^Result:\s+(.*)$', txt, re.M)
    if m:
        r = m.group(1)
        res['result'] = 'passed' if 'Passed' in r else 'failed' if 'Failed' in r else r
    res['errors'] = re.findall(r'^\s+\* (.*?) did not match\.$', txt, re.M)
    return res


def selftest():
    sample = ("# general\n(gen) banner: SSH-2.0-X\n\n# key exchange algorithms\n"
              "(kex) a-b (2048-bit) -- [warn] w1\n                      `- [info] i1\n(kex) c\n"
              "\x1b[0;31m(key) ssh-rsa (1024-bit cert/2048-bit RSA CA) -- [fail] f\x1b[0m\n"
              "(rec) -ssh-rsa                              -- key algorithm to remove \n"
              "(rec) !x -- kex algorithm to change (increase modulus size to 3072 bits or larger) \n")
    r = parse_text(sample)
    assert r.names('kex') == ['a-b', 'c'], r.names('kex')
    assert r.algs['kex'][0].bits == 2048 and r.algs['kex'][0].notes == [('warn', 'w1'), ('info', 'i1')]
    k = r.algs['key'][0]
    assert (k.bits, k.ca_bits, k.ca_type, k.colors) == (1024, 2048, 'RSA', ['fail']), (k.bits, k.ca_bits, k.ca_type, k.colors)
    assert r.recs[0][:4] == ('-', 'ssh-rsa', 'key', 'remove') and r.recs[1][4].startswith('increase')
    return True


if __name__ == '__main__':
    print('report selftest', selftest())
