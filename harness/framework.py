"""Case sharding, three-valued verdicts, known-finding matching, evidence and replay files."""
import concurrent.futures
import hashlib
import importlib
import json
import os
import subprocess
import sys
import time
import traceback

ROOT = os.path.dirname(os.path.dirname(os.path.abspath(__file__)))
OUT = os.environ.get('VERIF_OUT', ROOT)  # where evidence/ and replays/ are written (mutant evaluation uses a scratch place)
PY = os.environ.get('VERIF_PY', '/venv/bin/python')
NCPU = os.cpu_count() or 4


def load_prop(pid):
    return importlib.import_module('props.' + pid.lower())


def case_hash(case):
    return hashlib.sha256(json.dumps(case, sort_keys=True, default=repr).encode()).hexdigest()[:12]


def load_known():
    p = os.path.join(ROOT, 'known_findings.json')
    try:
        with open(p) as f:
            return json.load(f).get('findings', [])
    except OSError:
        return []


def safe_run(mod, case):
    t0 = time.monotonic()
    try:
        res = mod.run_case(case)
    except Exception:
        res = {'verdict': 'inconclusive', 'why': 'harness exception', 'trace': traceback.format_exc()[-2000:]}
    res.setdefault('verdict', 'held')
    res.setdefault('violations', [])
    res.setdefault('counters', {})
    res['case'] = case
    res['wall'] = round(time.monotonic() - t0, 3)
    if res['violations'] and res['verdict'] == 'held':
        res['verdict'] = 'violated'
    return res


def run_shard(pid, tier, seed, shard, nshards, outpath):
    mod = load_prop(pid)
    cases = mod.cases(tier, seed)
    mine = cases[shard::nshards]
    threads = getattr(mod, 'THREADS', 1)
    with open(outpath, 'w', buffering=1) as out:
        if threads <= 1:
            for c in mine:
                out.write(json.dumps(safe_run(mod, c), default=repr) + '\n')
        else:
            with concurrent.futures.ThreadPoolExecutor(max_workers=threads) as ex:
                for res in ex.map(lambda c: safe_run(mod, c), mine):
                    out.write(json.dumps(res, default=repr) + '\n')
    if hasattr(mod, 'shard_done'):
        mod.shard_done()


def _scratch():
    from . import runner
    return runner.scratch_dir('shards')


def run_check(pid, tier, seed, jobs=None):
    from . import runner
    t0 = time.monotonic()
    mod = load_prop(pid)
    if hasattr(mod, 'prepare'):
        mod.prepare(tier, seed)
    cases = mod.cases(tier, seed)
    if not cases:
        print('INCONCLUSIVE property=%s no cases generated' % pid)
        return 2
    nshards = min(jobs or getattr(mod, 'SHARDS', NCPU), len(cases))
    sdir = _scratch()
    procs = []
    budget = getattr(mod, 'BUDGET', {'quick': 900, 'thorough': 4 * 3600})[tier]
    env = dict(os.environ)
    env['PYTHONPATH'] = ROOT + os.pathsep + env.get('PYTHONPATH', '')
    for i in range(nshards):
        outp = os.path.join(sdir, 'shard-%d.jsonl' % i)
        logp = os.path.join(sdir, 'shard-%d.log' % i)
        p = subprocess.Popen([PY, os.path.join(ROOT, 'check.py'), pid, '--tier', tier, '--seed', str(seed), '--shard', '%d/%d' % (i, nshards), '--out', outp],
                             stdout=open(logp, 'wb'), stderr=subprocess.STDOUT, env=env, cwd=ROOT)
        procs.append((p, outp, logp))
    deadline = time.monotonic() + budget
    shard_fail = []
    for p, outp, logp in procs:
        try:
            rc = p.wait(max(1, deadline - time.monotonic()))
        except subprocess.TimeoutExpired:
            p.kill()
            p.wait()
            rc = 'timeout'
        if rc != 0:
            try:
                tail = open(logp, 'rb').read()[-1500:].decode('utf-8', 'replace')
            except OSError:
                tail = ''
            shard_fail.append((rc, tail))
    results = []
    for p, outp, logp in procs:
        try:
            with open(outp) as f:
                for line in f:
                    try:
                        results.append(json.loads(line))
                    except ValueError:
                        pass
        except OSError:
            pass
    runner.cleanup(sdir)
    done = {case_hash(r['case']) for r in results}
    missing = [c for c in cases if case_hash(c) not in done]
    for c in missing:
        results.append({'verdict': 'inconclusive', 'why': 'not run (shard died or budget exhausted)', 'case': c, 'violations': [], 'counters': {}})

    # retry inconclusive cases serially on a now idle harness; confirm violations by re-running them
    retried = 0
    final = []
    for r in results:
        if r['verdict'] == 'inconclusive' and retried < getattr(mod, 'MAX_RETRY', 40) and time.monotonic() < deadline + 120:
            for _ in range(2):
                retried += 1
                r2 = safe_run(mod, r['case'])
                r2['retried'] = True
                if r2['verdict'] != 'inconclusive':
                    r = r2
                    break
        final.append(r)
    results = final
    known = [k for k in load_known() if k.get('property') == pid]
    known_keys = {k['key']: k for k in known if k.get('status') == 'known'}
    confirm_budget = getattr(mod, 'MAX_CONFIRM', 25)
    confirmed_keys = set()
    unconfirmed = 0
    new_violations = []
    known_hits = {}
    for r in results:
        if r['verdict'] != 'violated':
            continue
        keys = {v['key'] for v in r['violations']}
        newkeys = [k for k in keys if k not in known_keys]
        for k in keys:
            if k in known_keys:
                known_hits[k] = known_hits.get(k, 0) + 1
        if not newkeys:
            r['verdict'] = 'known'
            continue
        # a violation not on the list: it must reproduce before it is reported
        need = [k for k in newkeys if k not in confirmed_keys]
        if need and confirm_budget > 0 and getattr(mod, 'CONFIRM', True):
            confirm_budget -= 1
            r2 = safe_run(mod, dict(r['case'], _confirm=True))
            keys2 = {v['key'] for v in r2.get('violations', [])}
            still = [k for k in newkeys if k in keys2]
            if not still:
                r['verdict'] = 'inconclusive'
                r['why'] = 'violation did not reproduce on re-run: %s' % newkeys
                unconfirmed += 1
                continue
            confirmed_keys.update(still)
            newkeys = still
        new_violations.append((r, newkeys))

    os.makedirs(os.path.join(OUT, 'replays', pid), exist_ok=True)
    printed = set()
    per_key = {}
    for r, newkeys in new_violations:
        for k in newkeys:
            per_key[k] = per_key.get(k, 0) + 1
            if per_key[k] > 3:
                continue  # at most three witnesses per mechanism
            path = os.path.join(OUT, 'replays', pid, '%s-%s.json' % (''.join(ch if ch.isalnum() else '_' for ch in k)[:80], case_hash(r['case'])))
            with open(path, 'w') as f:
                json.dump({'property': pid, 'key': k, 'case': r['case'], 'violations': [v for v in r['violations'] if v['key'] == k], 'tier': tier, 'seed': seed}, f, indent=1, default=repr)
            if k not in printed:
                print('VIOLATION property=%s replay=%s key=%s what=%s' % (pid, path, k, str([v.get('what') for v in r['violations'] if v['key'] == k][:1])[:300]))
            printed.add(k)
    for k, n in sorted(known_hits.items()):
        print('KNOWN-FINDING: property=%s %s [key=%s, %d case(s) this run]' % (pid, known_keys[k].get('what_fails', ''), k, n))

    # ---------------------------------------------------------------- evidence
    counters = {}
    for r in results:
        for k, v in (r.get('counters') or {}).items():
            if isinstance(v, (int, float)):
                counters[k] = max(counters.get(k, 0), v) if k.startswith('max_') else counters.get(k, 0) + v
    nontrivial = set()
    for r in results:
        if r['verdict'] in ('held', 'known', 'violated') and r.get('nontrivial'):
            nontrivial.add(r['nontrivial'] if isinstance(r['nontrivial'], str) else case_hash(r['case']))
    n_inc = sum(1 for r in results if r['verdict'] == 'inconclusive')
    samples = []
    seen_kind = set()
    for r in results:
        s = r.get('sample')
        if s is None:
            continue
        kind = r.get('sample_kind', r['case'].get('kind', ''))
        if kind in seen_kind and len(samples) >= 3:
            continue
        seen_kind.add(kind)
        samples.append(s)
        if len(samples) >= 8:
            break
    if not samples:
        samples = [r['case'] for r in results[:3]]
    required = getattr(mod, 'REQUIRED', {})
    shortfalls = {k: (counters.get(k, 0), need) for k, need in required.items() if counters.get(k, 0) < need}
    n_eval = sum(1 for r in results if r['verdict'] != 'inconclusive')
    inc_limit = max(3, int(0.03 * len(results)))
    n_harness_exc = sum(1 for r in results if r['verdict'] == 'inconclusive' and r.get('why') == 'harness exception')
    verdict_inconclusive = bool(shortfalls) or n_eval == 0 or n_inc > inc_limit or len(nontrivial) < 2 or n_harness_exc > 0
    ev = {
        'property_id': pid, 'tier': tier, 'seed': seed, 'level': mod.LEVEL,
        'coverage': {
            'evaluations': n_eval,
            'distinct_nontrivial': len(nontrivial),
            'rule': mod.RULE,
            'samples': samples,
            'exhaustive': bool(getattr(mod, 'EXHAUSTIVE', {}).get(tier, False)) if isinstance(getattr(mod, 'EXHAUSTIVE', False), dict) else bool(getattr(mod, 'EXHAUSTIVE', False)),
            'cases_generated': len(cases),
            'inconclusive': n_inc,
            'inconclusive_reasons': sorted({str(r.get('why', ''))[:120] for r in results if r['verdict'] == 'inconclusive'})[:10],
            'unconfirmed_violations': unconfirmed,
            'retried': retried,
            'monitor_counters': {k: (round(v, 3) if isinstance(v, float) else v) for k, v in sorted(counters.items())},
            'required_counters': required,
            'known_findings_seen': known_hits,
            'new_violation_keys': sorted(printed),
            'shards': nshards,
            'shard_failures': [str(x[0]) for x in shard_fail],
        },
        'assumptions': getattr(mod, 'ASSUMPTIONS', []),
        'wall_s': round(time.monotonic() - t0, 2),
        'violations': len(new_violations),
    }
    if hasattr(mod, 'extra_evidence'):
        try:
            ev['coverage'].update(mod.extra_evidence(results))
        except Exception:
            ev['coverage']['extra_evidence_error'] = traceback.format_exc()[-500:]
    os.makedirs(os.path.join(OUT, 'evidence'), exist_ok=True)
    with open(os.path.join(OUT, 'evidence', pid + '.json'), 'w') as f:
        json.dump(ev, f, indent=1, default=repr)
    print('%s tier=%s seed=%d cases=%d evaluated=%d nontrivial=%d inconclusive=%d known=%d new-violations=%d wall=%.1fs' % (
        pid, tier, seed, len(cases), n_eval, len(nontrivial), n_inc, sum(known_hits.values()), len(new_violations), time.monotonic() - t0))
    for rc, tail in shard_fail[:3]:
        print('shard failure rc=%s: %s' % (rc, tail[-400:]))
    if new_violations:
        return 1
    if verdict_inconclusive:
        print('INCONCLUSIVE property=%s shortfalls=%s inconclusive=%d/%d nontrivial=%d' % (pid, shortfalls, n_inc, len(results), len(nontrivial)))
        for r in [r for r in results if r['verdict'] == 'inconclusive'][:5]:
            print('  inconclusive case:', json.dumps(r['case'], default=repr)[:300], '|', str(r.get('why'))[:300], '|', str(r.get('trace', ''))[-600:])
        return 2
    return 0


def replay(pid, path):
    mod = load_prop(pid)
    with open(path) as f:
        rec = json.load(f)
    r = safe_run(mod, rec['case'])
    print(json.dumps({k: v for k, v in r.items() if k != 'case'}, indent=1, default=repr)[:6000])
    keys = {v['key'] for v in r['violations']}
    if rec.get('key') in keys or (keys and 'key' not in rec):
        print('VIOLATION property=%s replay=%s key=%s' % (pid, path, rec.get('key')))
        return 1
    if r['verdict'] == 'inconclusive':
        return 2
    return 0
