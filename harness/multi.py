"""Multi-target (-T) runs against several scripted peers, with optional schedule steering through gates."""
import json
import os
import re
import threading
import time

from . import audit, peer as peermod, report, runner, wire

BASE_KEX = ['curve25519-sha256', 'diffie-hellman-group-exchange-sha256', 'diffie-hellman-group-exchange-sha1']
BASE_KEY = ['ssh-rsa', 'rsa-sha2-512', 'ssh-ed25519', 'ssh-rsa-cert-v01@openssh.com']
BASE_ENC = ['chacha20-poly1305@openssh.com', 'aes128-cbc', 'aes128-ctr']
BASE_MAC = ['hmac-sha2-256-etm@openssh.com', 'hmac-sha2-256']
MARK = 'kex-strict-s-v00@openssh.com'

# name -> parameters: every healthy archetype advertises the same base lists, so whatever one scan writes into shared rating state is visible in another's report
HEALTHY = {
    'clean':           dict(marker=True, rsa=4096, ca=4096, gex=[4096], style='strict', banner='SSH-2.0-dropbear_2022.83'),
    'terrapin':        dict(marker=False, rsa=4096, ca=4096, gex=[4096], style='strict', banner='SSH-2.0-dropbear_2022.83'),
    'rsa1024':         dict(marker=True, rsa=1024, ca=4096, gex=[4096], style='strict', banner='SSH-2.0-dropbear_2022.83'),
    'rsa2048':         dict(marker=True, rsa=2048, ca=4096, gex=[4096], style='strict', banner='SSH-2.0-dropbear_2022.83'),
    'cert-small-ca':   dict(marker=True, rsa=4096, ca=1024, gex=[4096], style='strict', banner='SSH-2.0-dropbear_2022.83'),
    'gex1024':         dict(marker=True, rsa=4096, ca=4096, gex=[1024], style='strict', banner='SSH-2.0-dropbear_2022.83'),
    'gex2048':         dict(marker=True, rsa=4096, ca=4096, gex=[2048], style='strict', banner='SSH-2.0-dropbear_2022.83'),
    'gex2048-openssh': dict(marker=True, rsa=4096, ca=4096, gex=[2048], style='openssh', banner='SSH-2.0-OpenSSH_8.9p1'),
    'openssh-fallback': dict(marker=True, rsa=4096, ca=4096, gex=[3072], style='openssh', banner='SSH-2.0-OpenSSH_8.9p1'),
    'unknown-names':   dict(marker=True, rsa=4096, ca=4096, gex=[4096], style='strict', banner='SSH-2.0-dropbear_2022.83', extra=True),
    'no-probes':       dict(marker=False, rsa=4096, ca=4096, gex=None, style='strict', banner='SSH-2.0-libssh_0.9.6', noprobe=True),
    # same lists again under the same products at other versions: whatever a scan remembers per product/version must not carry over to the next target
    'openssh-old':     dict(marker=True, rsa=4096, ca=4096, gex=[4096], style='strict', banner='SSH-2.0-OpenSSH_6.6'),
    'openssh-new':     dict(marker=True, rsa=4096, ca=4096, gex=[4096], style='strict', banner='SSH-2.0-OpenSSH_10.0'),
    'dropbear-old':    dict(marker=True, rsa=4096, ca=4096, gex=[4096], style='strict', banner='SSH-2.0-dropbear_2013.58'),
    'ssh1':            dict(ssh1=True),
}


# healthy servers whose single-target status is "warning" / "good" (every archetype above ends in "failure"): used where the rank of the statuses matters
OTHER_STATUS = {
    'warn-only': dict(banner='SSH-2.0-OpenSSH_9.9', kex=['curve25519-sha256', MARK], key=['ssh-ed25519'], enc=['aes128-ctr'], mac=['hmac-sha2-256']),
    # two servers whose identification lines differ only in a character that is shown replaced: 'build?7' as sent, and 'build<0xe9>7' shown as 'build?7' and flagged
    'twin-plain': dict(banner='SSH-2.0-OpenSSH_9.9 build?7', kex=['curve25519-sha256', MARK], key=['ssh-ed25519'], enc=['aes128-ctr'], mac=['hmac-sha2-256']),
    'twin-nonascii': dict(banner='SSH-2.0-OpenSSH_9.9 build\udce97', kex=['curve25519-sha256', MARK], key=['ssh-ed25519'], enc=['aes128-ctr'], mac=['hmac-sha2-256']),
    'good-only': dict(banner='SSH-2.0-OpenSSH_9.9', kex=['sntrup761x25519-sha512@openssh.com', MARK], key=['ssh-ed25519'], enc=['aes256-gcm@openssh.com'], mac=['hmac-sha2-256-etm@openssh.com']),
}


def healthy(name):
    if name in OTHER_STATUS:
        a = OTHER_STATUS[name]
        return {'banner': a['banner'], 'kex': audit.sym_kex(a['kex'], a['key'], a['enc'], a['mac']), 'hostkeys': {'ssh-ed25519': {'type': 'ed25519'}}, 'hostkey_default': None, 'gex': None}
    a = HEALTHY[name]
    if a.get('ssh1'):
        return {'banner': 'SSH-1.5-OpenSSH_1.2.3', 'proto': 1, 'ssh1': {'cmask': 0x4c, 'amask': 0x0e}}
    kex = list(BASE_KEX) + ([MARK] if a['marker'] else [])
    enc, mac, key = list(BASE_ENC), list(BASE_MAC), list(BASE_KEY)
    if a.get('extra'):
        kex.append('zzkex@example.com')
        enc.append('zzcipher@example.com')
        mac.append('zzmac@example.com')
    hk = {'ssh-rsa': {'type': 'rsa', 'bits': a['rsa']}, 'rsa-sha2-512': {'type': 'rsa', 'bits': a['rsa']}, 'ssh-ed25519': {'type': 'ed25519'},
          'ssh-rsa-cert-v01@openssh.com': {'type': 'rsa-cert', 'bits': a['rsa'], 'ca': {'type': 'rsa', 'bits': a['ca']}}}
    gex = {'sizes': a['gex'], 'style': a['style']} if a['gex'] else None
    if a.get('noprobe'):
        hk = {}
    return {'banner': a['banner'], 'kex': audit.sym_kex(kex, key, enc, mac), 'hostkeys': hk, 'hostkey_default': None, 'gex': gex}


def failing(name, rng=None):
    """Failure archetypes for C08.  Returns (script or None, kind) - kind 'unresolvable' / 'refused' need no listening peer."""
    k = audit.sym_kex(['curve25519-sha256', MARK], ['ssh-ed25519'], ['aes128-ctr'], ['hmac-sha2-256'])
    s = {'banner': 'SSH-2.0-OpenSSH_9.0', 'kex': k, 'hostkeys': {'ssh-ed25519': {'type': 'ed25519'}}, 'gex': None, 'linger': 8}
    kp = wire.packet(wire.kexinit_payload(k))
    if name == 'silent':
        s['faults'] = [{'at': 'banner', 'op': 'stall_before'}]
    elif name == 'early-close':
        s['faults'] = [{'at': 'kexinit', 'op': 'close_before'}]
    elif name == 'close-before-banner':
        s['faults'] = [{'at': 'banner', 'op': 'close_before'}]
    elif name == 'bad-block-size':
        s['faults'] = [{'at': 'kexinit', 'op': 'patch', 'offset': 0, 'hex': wire.u32(len(kp) - 4 + 3).hex()}]
    elif name == 'truncated-kexinit':
        s['faults'] = [{'at': 'kexinit', 'op': 'truncate', 'offset': 60, 'then': 'close'}]
    elif name == 'bad-crc':
        s = {'banner': 'SSH-1.5-OpenSSH_1.2.3', 'proto': 1, 'ssh1': {'cmask': 0x48, 'amask': 0x0c, 'bad_crc': True}, 'linger': 8}
    elif name == 'probe-garbage':
        s['faults'] = [{'conn': 'probe', 'at': 'kexreply', 'op': 'random', 'seed': 5}]
    elif name == 'probe-wrong-type':
        s['faults'] = [{'conn': 'probe', 'at': 'kexreply', 'op': 'patch', 'offset': 5, 'hex': '03'}]
    elif name == 'probe-malformed-reply':
        s['faults'] = [{'conn': 'probe', 'at': 'kexreply', 'op': 'replace', 'hex': wire.packet(wire.kex_reply(31, wire.string('ssh-ed25519'))).hex()}]
    elif name == 'all-padding':
        # block-aligned, but the padding takes the whole packet: there is no message type byte
        s['faults'] = [{'at': 'kexinit', 'op': 'replace', 'hex': (wire.u32(12) + b'\x0b' + bytes(11)).hex()}]
    elif name == 'probe-all-padding':
        s['faults'] = [{'conn': 'probe', 'at': 'kexreply', 'op': 'replace', 'hex': (wire.u32(12) + b'\x0b' + bytes(11)).hex()}]
    elif name == 'wrong-first-packet':
        s['faults'] = [{'at': 'kexinit', 'op': 'patch', 'offset': 5, 'hex': '15'}]
    elif name == 'garbage-banner':
        s['faults'] = [{'at': 'banner', 'op': 'random', 'seed': 3, 'len': 80}, {'at': 'banner', 'op': 'then_close'}]
    elif name in ('unresolvable', 'refused', 'badname', 'refused-top-port'):
        return None
    else:
        raise ValueError(name)
    return s


class Target:
    def __init__(self, name, script=None, kind='peer', host='127.0.0.1', gated=False):
        self.name, self.kind = name, kind
        self.peer = None
        if kind == 'peer':
            if gated:
                script = dict(script, gate={'conn': 0, 'at': 'banner'})
            self.peer = peermod.ServerPeer(script, host=host)
            self.spec = self.peer.target()
        elif kind == 'refused':
            self.peer = peermod.ServerPeer({'banner': 'x', 'kex': {}}, listen=False)
            self.spec = self.peer.target()
        elif kind == 'refused-top-port':
            # nothing listens on the highest valid port of a loopback address nobody else uses (ephemeral ports end below it)
            import os as _os
            b = _os.urandom(3)
            self.spec = '127.%d.%d.%d:65535' % (b[0], b[1], 1 + b[2] % 254)
        elif kind == 'unresolvable':
            self.spec = 'no-such-host-%s.invalid:2222' % name
        elif kind == 'badname':
            # a host name with an empty label: the resolver raises an exception type the connection code does not expect, so the worker's last-resort handler reports an internal error
            self.spec = 'gateway..example:2222'
        self.script = script

    def stop(self):
        if self.peer is not None:
            self.peer.stop(0.5)


def normalize_text(block, spec=None):
    lines = [l for l in block.split('\n')]
    lines = [l for l in lines if not report.strip_ansi(l).startswith('(gen) target: ')]
    while lines and not report.strip_ansi(lines[0]).strip():
        lines.pop(0)
    while lines and not report.strip_ansi(lines[-1]).strip():
        lines.pop()
    return '\n'.join(l.rstrip() for l in lines)


def target_of_block(block):
    m = re.search(r'^\(gen\) target: (\S+)', report.strip_ansi(block), re.M)
    if m:
        return m.group(1)
    m = re.search(r'^Host:\s+(\S+)', report.strip_ansi(block), re.M)
    if m:
        return m.group(1)
    m = re.search(r'(?:cannot connect to|scanning) (\S+?)(?: port |:)(\d+)', report.strip_ansi(block))
    if m:
        return '%s:%s' % (m.group(1), m.group(2))
    return None


def run_multi(targets, threads, fmt='text', extra=(), gate_order=None, monitors=None, timeout=120, tmo=None, hashseed='0', file_lines=None, spec=None):
    """targets: [Target].  Returns dict(run=Run, blocks={spec: text}|None, docs={spec: doc}|None, raw_blocks=[...])."""
    d = runner.scratch_dir('multi')
    try:
        tf = os.path.join(d, 'targets.txt')
        with open(tf, 'w') as f:
            f.write(''.join(l + '\n' for l in (file_lines if file_lines is not None else [t.spec for t in targets])))
        args = ['--skip-rate-test', '-T', tf, '--threads', str(threads)] + (['-j'] if fmt == 'json' else ['-n']) + list(extra)
        if tmo is not None:
            args += ['-t', str(tmo)]
        opener = None
        if gate_order is not None:
            def open_gates():
                for i in gate_order:
                    t = targets[i]
                    end = time.monotonic() + 40
                    while time.monotonic() < end and t.peer.count('accept') == 0:
                        time.sleep(0.01)
                    t.peer.gate.set()
            opener = threading.Thread(target=open_gates, daemon=True)
            opener.start()
        r = runner.run_cli(args, cwd=d, monitors=monitors, timeout=timeout, hashseed=hashseed, spec=spec)
        if opener is not None:
            for t in targets:
                if t.peer is not None:
                    t.peer.gate.set()
            opener.join(2)
    finally:
        runner.cleanup(d)
    res = {'run': r, 'blocks': None, 'docs': None, 'raw_blocks': None}
    if fmt == 'json':
        try:
            docs = json.loads(r.out)
            res['raw_docs'] = docs
            if isinstance(docs, list):
                res['docs'] = {}
                for doc in docs:
                    if isinstance(doc, dict):
                        key = doc.get('target') or ('%s:%s' % (doc.get('host'), doc.get('port')) if 'host' in doc else None)
                        res['docs'].setdefault(key, []).append(doc)
        except ValueError as e:
            res['json_error'] = str(e)
    else:
        raw = report.split_blocks(r.out)
        res['raw_blocks'] = raw
        res['blocks'] = {}
        for b in raw:
            res['blocks'].setdefault(target_of_block(b), []).append(b)
    return res
