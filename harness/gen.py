"""Seeded generators of KEXINIT name-lists and peers (DESIGN.md 3.1 / 3.2)."""
import random

from . import audit, wire

PROBE_KEX = ['curve25519-sha256', 'curve25519-sha256@libssh.org', 'diffie-hellman-group14-sha256', 'diffie-hellman-group16-sha512', 'diffie-hellman-group18-sha512',
             'diffie-hellman-group14-sha1', 'diffie-hellman-group1-sha1', 'ecdh-sha2-nistp256', 'ecdh-sha2-nistp384', 'ecdh-sha2-nistp521']
GEX_KEX = ['diffie-hellman-group-exchange-sha256', 'diffie-hellman-group-exchange-sha1']
TERRAPIN_SHAPES = ('chacha20-poly1305', '-cbc', '-etm@openssh.com')

STD_HOSTKEYS = {
    'ssh-rsa': {'type': 'rsa', 'bits': 3072}, 'rsa-sha2-256': {'type': 'rsa', 'bits': 3072}, 'rsa-sha2-512': {'type': 'rsa', 'bits': 3072},
    'ssh-ed25519': {'type': 'ed25519'}, 'ssh-ed448': {'type': 'ed448'},
    'ecdsa-sha2-nistp256': {'type': 'ecdsa', 'bits': 256}, 'ecdsa-sha2-nistp384': {'type': 'ecdsa', 'bits': 384}, 'ecdsa-sha2-nistp521': {'type': 'ecdsa', 'bits': 521},
    'ssh-dss': {'type': 'dss', 'bits': 1024},
    'ssh-rsa-cert-v01@openssh.com': {'type': 'rsa-cert', 'bits': 3072, 'ca': {'type': 'rsa', 'bits': 4096}},
    'rsa-sha2-256-cert-v01@openssh.com': {'type': 'rsa-cert', 'bits': 3072, 'ca': {'type': 'rsa', 'bits': 4096}},
    'rsa-sha2-512-cert-v01@openssh.com': {'type': 'rsa-cert', 'bits': 3072, 'ca': {'type': 'rsa', 'bits': 4096}},
    'ssh-ed25519-cert-v01@openssh.com': {'type': 'ed25519-cert', 'ca': {'type': 'ed25519'}},
}


def is_terrapin_shape(name):
    return name.startswith('chacha20-poly1305') or name.endswith('-cbc') or name.endswith('-cbc@openssh.org') or name.endswith('-cbc@ssh.com') or name == 'rijndael-cbc@lysator.liu.se' or name.endswith('-etm@openssh.com')


def classify_db(cat, name):
    """'fail' | 'warn' | 'clean' from the live table."""
    e = audit.db_entry(cat, name)
    if e is None:
        return 'unknown'
    if len(e) > 1 and e[1]:
        return 'fail'
    if len(e) > 2 and e[2]:
        return 'warn'
    return 'clean'


def pick_names(rng, cat, names, n, classes):
    """n names for category cat; classes: weights dict over db/gss/unknown/long/punct/nonutf8/dup/empty."""
    out = []
    kinds = list(classes)
    weights = [classes[k] for k in kinds]
    gss_fams = [x for x in names['kex'] if x.startswith('gss-') and x.endswith('-*')]
    for _ in range(n):
        k = rng.choices(kinds, weights)[0]
        if k == 'gss' and cat != 'kex':
            k = 'db'
        if k == 'dup' and not out:
            k = 'db'
        if k == 'db':
            cand = [x for x in names[cat] if not x.endswith('-*')]
            out.append(rng.choice(cand))
        elif k == 'gss':
            out.append(audit.gss_instance(rng, rng.choice(gss_fams), forced=rng.choice([None, '+', '/', 'a+/'])))
        elif k == 'dup':
            out.append(rng.choice(out))
        elif k == 'empty':
            out.append('')   # an empty entry inside a list ("a,,b" or a leading comma): carries no name
        else:
            out.append(audit.unknown_name(rng, {'unknown': 'plain'}.get(k, k)))
    return out


def random_kex(rng, names=None, classes=None, sizes=(1, 12), allow_empty=False, probe=True, sym=True, no_terrapin_unknown=True):
    names = names or audit.db_names()
    classes = classes or {'db': 10, 'gss': 1, 'unknown': 1, 'dup': 0.5}
    lists = {}
    for cat in ('kex', 'key', 'enc', 'mac'):
        n = rng.randint(*sizes)
        if allow_empty and rng.random() < .08:
            n = 0
        lst = pick_names(rng, cat, names, n, classes)
        lists[cat] = lst
    if probe and not any(x in PROBE_KEX for x in lists['kex']):
        lists['kex'].insert(rng.randrange(len(lists['kex']) + 1), rng.choice(PROBE_KEX[:5]))
    comp = rng.choice([['none'], ['none', 'zlib@openssh.com'], ['zlib@openssh.com', 'none'], ['zlib', 'none', 'zlib@openssh.com'], ['none', 'zlib']])
    k = audit.sym_kex(lists['kex'], lists['key'], lists['enc'], lists['mac'], comp=comp)
    if not sym:
        k['enc_cs'] = pick_names(rng, 'enc', names, rng.randint(1, 6), {'db': 1})
        k['mac_cs'] = pick_names(rng, 'mac', names, rng.randint(1, 6), {'db': 1})
    return k


def hostkeys_for(key_list, overrides=None):
    hk = {}
    for n in key_list:
        if n in STD_HOSTKEYS:
            hk[n] = STD_HOSTKEYS[n]
    if overrides:
        hk.update(overrides)
    return hk
