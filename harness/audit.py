"""Helpers shared by the property modules: run one audit of a scripted peer through the real CLI."""
import os
import random
import socket
import threading
import time

from . import peer, runner, wire

BASE_ARGS = ['--skip-rate-test']
_port_lock = threading.Lock()
_port_next = [0]


def free_port():
    """A port outside the ephemeral range that is free right now (per-process stride avoids collisions)."""
    with _port_lock:
        for _ in range(2000):
            if _port_next[0] == 0:
                _port_next[0] = 10000 + (os.getpid() * 131) % 18000
            _port_next[0] += 1
            if _port_next[0] >= 30000:
                _port_next[0] = 10001
            p = _port_next[0]
            ok = True
            for fam, addr in ((socket.AF_INET, '0.0.0.0'), (socket.AF_INET6, '::')):
                s = socket.socket(fam, socket.SOCK_STREAM)
                try:
                    s.setsockopt(socket.SOL_SOCKET, socket.SO_REUSEADDR, 1)
                    if fam == socket.AF_INET6:
                        s.setsockopt(socket.IPPROTO_IPV6, socket.IPV6_V6ONLY, 1)
                    s.bind((addr, p))
                except OSError:
                    ok = False
                finally:
                    s.close()
            if ok:
                return p
    raise RuntimeError('no free port')


def sym_kex(kex, key, enc, mac, comp=('none',), enc_cs=None, mac_cs=None, comp_cs=None, **extra):
    k = {'kex': list(kex), 'key': list(key), 'enc_sc': list(enc), 'enc_cs': list(enc if enc_cs is None else enc_cs),
         'mac_sc': list(mac), 'mac_cs': list(mac if mac_cs is None else mac_cs), 'comp_sc': list(comp), 'comp_cs': list(comp if comp_cs is None else comp_cs),
         'lang_cs': [], 'lang_sc': []}
    k.update(extra)
    return k


def audit_server(script, args=(), monitors=None, spec=None, timeout=60, host='127.0.0.1', hashseed='0', base=BASE_ARGS, color=True, cwd=None, keep_peer=False, via_file=False):
    """Start a ServerPeer for `script`, run the CLI against it (named on the command line, or - via_file - as the only line of a targets file), stop the peer.  Returns (Run, peer)."""
    p = peer.ServerPeer(script, host=host)
    d = None
    try:
        how = [p.target()]
        if via_file:
            import os
            d = runner.scratch_dir('tf')
            with open(os.path.join(d, 'targets.txt'), 'w') as f:
                f.write(p.target() + '\n')
            how = ['-T', os.path.join(d, 'targets.txt')]
        r = runner.run_cli(list(base) + list(args) + how, timeout=timeout, monitors=monitors, spec=spec, hashseed=hashseed, color=color, cwd=cwd)
    finally:
        if d:
            runner.cleanup(d)
        if not keep_peer:
            p.stop()
    return r, p


def audit_client(script, args=(), monitors=None, timeout=40, hashseed='0', color=True, cwd=None):
    """Run the CLI in client-audit mode (-c -p PORT) and play `script` against it as a client."""
    for _attempt in range(3):
        port = free_port()
        cp = peer.ClientPeer(script, port)
        r = runner.run_cli(['-c', '-p', str(port), '-t', '15'] + list(args), timeout=timeout, monitors=monitors, hashseed=hashseed, color=color, cwd=cwd)
        cp.stop()
        if 'failed to listen' in r.err:
            continue
        return r, cp
    return r, cp


def db_names():
    """Names per category read from the live tables of the tree under test."""
    from ssh_audit.ssh2_kexdb import SSH2_KexDB
    return {c: list(SSH2_KexDB.MASTER_DB[c].keys()) for c in ('kex', 'key', 'enc', 'mac')}


def db_entry(cat, name):
    from ssh_audit.ssh2_kexdb import SSH2_KexDB
    return SSH2_KexDB.MASTER_DB[cat].get(name)


B64 = 'ABCDEFGHIJKLMNOPQRSTUVWXYZabcdefghijklmnopqrstuvwxyz0123456789+/'


def gss_instance(rng, family, forced=None):
    """Instantiate a 'gss-...-*' table family with a base64 suffix (MD5 of an OID: 22 chars + '==')."""
    stem = family[:-1]
    body = ''.join(rng.choice(B64) for _ in range(22))
    if forced:
        body = forced + body[len(forced):]
    return stem + body + '=='


def unknown_name(rng, kind='plain'):
    alpha = 'abcdefghijklmnopqrstuvwxyz0123456789'
    if kind == 'plain':
        return 'zz' + ''.join(rng.choice(alpha) for _ in range(rng.randint(3, 12))) + rng.choice(['', '@example.com', '-v1'])
    if kind == 'long':
        return 'long' + ''.join(rng.choice(alpha + '-_.@+/=') for _ in range(rng.choice([200, 500, 1500, 3900])))
    if kind == 'punct':
        return 'p' + ''.join(rng.choice('!#$%&*+-./:;<=>?@[]^_{|}~' + alpha) for _ in range(rng.randint(4, 20)))
    if kind == 'nonutf8':
        raw = b'nu' + bytes(rng.choice([0x80, 0xff, 0xc3, 0xfe, 0xa0, 0x61, 0x62]) for _ in range(rng.randint(3, 10)))
        return raw.decode('utf-8', 'surrogateescape')
    raise ValueError(kind)
