#!/venv/bin/python
"""Single entry point.

  check.py C07 --tier quick|thorough [--seed N] [--jobs K]
  check.py C07 --replay replays/C07/<file>.json
  check.py --selftest

exit 0: held on everything explored (KNOWN-FINDING lines allowed)
exit 1: at least one `VIOLATION property=<id> replay=<path>` not listed in known_findings.json
exit 2: inconclusive run (deciding monitors not reached / too many inconclusive cases)
"""
import argparse
import os
import sys

ROOT = os.path.dirname(os.path.abspath(__file__))
sys.path.insert(0, ROOT)
sys.path.insert(1, os.path.join(os.environ.get('VERIF_REPO', '/repo'), 'src'))


def main():
    ap = argparse.ArgumentParser()
    ap.add_argument('prop', nargs='?')
    ap.add_argument('--tier', default=None, choices=['quick', 'thorough'])
    ap.add_argument('--seed', type=int, default=None)
    ap.add_argument('--jobs', type=int, default=None)
    ap.add_argument('--shard', default=None)
    ap.add_argument('--out', default=None)
    ap.add_argument('--replay', default=None)
    ap.add_argument('--selftest', action='store_true')
    a = ap.parse_args()
    from harness import framework
    if a.selftest:
        from harness import wire, report
        wire.selftest()
        report.selftest()
        print('selftest ok')
        return 0
    tier = a.tier or os.environ.get('VERIF_TIER') or 'quick'
    if tier not in ('quick', 'thorough'):
        tier = 'quick'
    seed = a.seed if a.seed is not None else int(os.environ.get('VERIF_SEED', '0') or 0)
    pid = a.prop.upper()
    if a.replay:
        return framework.replay(pid, a.replay)
    if a.shard:
        i, n = a.shard.split('/')
        framework.run_shard(pid, tier, seed, int(i), int(n), a.out)
        return 0
    return framework.run_check(pid, tier, seed, a.jobs)


if __name__ == '__main__':
    sys.exit(main())
